module rewrite

go 1.23
