// rewrite: syntactic rewriter routing sync/chan/select/go/time.Sleep/os.Remove sites to package vs.
package main

import (
	"bytes"
	"fmt"
	"go/ast"
	"go/build"
	"go/format"
	"go/parser"
	"go/token"
	"os"
	"path/filepath"
	"sort"
	"strconv"
	"strings"
)

const vsPath = "vsched"

// testMode: also rewrite _test.go files (conformance run of the repository's own suite on the rewritten sources).
var testMode bool

func main() {
	if len(os.Args) < 4 {
		fmt.Fprintln(os.Stderr, "usage: rewrite plain|sched <srcdir> <dstdir>")
		os.Exit(2)
	}
	mode, src, dst := os.Args[1], os.Args[2], os.Args[3]
	ents, err := os.ReadDir(src)
	if err != nil {
		fmt.Fprintln(os.Stderr, "rewrite:", err)
		os.Exit(2)
	}
	os.MkdirAll(dst, 0755)
	stats := map[string]int{}
	ctx := build.Default
	ctx.BuildTags = nil
	nfiles := 0
	for _, e := range ents {
		n := e.Name()
		if e.IsDir() || !strings.HasSuffix(n, ".go") || (strings.HasSuffix(n, "_test.go") && mode != "tests") {
			continue
		}
		ok, err := ctx.MatchFile(src, n)
		if err != nil {
			fmt.Fprintln(os.Stderr, "rewrite: cannot evaluate build constraints of", n, err)
			os.Exit(2)
		}
		if !ok {
			continue
		}
		b, err := os.ReadFile(filepath.Join(src, n))
		if err != nil {
			fmt.Fprintln(os.Stderr, "rewrite:", err)
			os.Exit(2)
		}
		out := b
		if mode == "sched" || mode == "tests" {
			testMode = mode == "tests"
			out, err = rewriteFile(n, b, stats)
			if err != nil {
				fmt.Fprintln(os.Stderr, "rewrite: cannot instrument", n, err)
				os.Exit(2)
			}
			if err := scanClosed(n, out); err != nil && mode == "sched" {
				fmt.Fprintln(os.Stderr, "rewrite: cannot instrument (fail-closed scan):", err)
				os.Exit(2)
			}
		}
		if err := os.WriteFile(filepath.Join(dst, n), out, 0644); err != nil {
			fmt.Fprintln(os.Stderr, "rewrite:", err)
			os.Exit(2)
		}
		nfiles++
	}
	var keys []string
	for k := range stats {
		keys = append(keys, k)
	}
	sort.Strings(keys)
	var sb strings.Builder
	for _, k := range keys {
		fmt.Fprintf(&sb, " %s=%d", k, stats[k])
	}
	fmt.Printf("rewrite %s: files=%d%s\n", mode, nfiles, sb.String())
}

// scanClosed re-parses the rewritten output and rejects every construct that
// would escape the controlled scheduler.
func scanClosed(name string, out []byte) error {
	fset := token.NewFileSet()
	f, err := parser.ParseFile(fset, name, out, 0)
	if err != nil {
		return fmt.Errorf("%s: rewritten output does not parse: %v", name, err)
	}
	var bad error
	fail := func(n ast.Node, what string) {
		if bad == nil {
			bad = fmt.Errorf("%s: %s remains after rewriting (%s)", fset.Position(n.Pos()), what, name)
		}
	}
	for _, im := range f.Imports {
		if im.Name != nil && im.Name.Name == "." {
			fail(im, "dot import")
		}
		if im.Path.Value == `"sync"` {
			fail(im, "import of sync")
		}
	}
	ast.Inspect(f, func(n ast.Node) bool {
		switch x := n.(type) {
		case *ast.ChanType:
			fail(x, "channel type")
		case *ast.SelectStmt:
			fail(x, "select statement")
		case *ast.GoStmt:
			fail(x, "go statement")
		case *ast.SendStmt:
			fail(x, "channel send")
		case *ast.UnaryExpr:
			if x.Op == token.ARROW {
				fail(x, "channel receive")
			}
		case *ast.SelectorExpr:
			if id, ok := x.X.(*ast.Ident); ok {
				if id.Name == "sync" {
					fail(x, "sync."+x.Sel.Name)
				}
				if id.Name == "time" {
					switch x.Sel.Name {
					case "Sleep", "After", "AfterFunc", "NewTimer", "NewTicker", "Tick":
						fail(x, "time."+x.Sel.Name)
					}
				}
				if id.Name == "os" && (x.Sel.Name == "Remove" || x.Sel.Name == "RemoveAll" || x.Sel.Name == "Rename") {
					fail(x, "os."+x.Sel.Name)
				}
				if id.Name == "runtime" && (x.Sel.Name == "Gosched" || x.Sel.Name == "SetFinalizer") {
					fail(x, "runtime."+x.Sel.Name)
				}
			}
		}
		return true
	})
	return bad
}

type rw struct {
	fset  *token.FileSet
	stats map[string]int
	used  bool
	tmp   int
}

func sel(x, s string) ast.Expr { return &ast.SelectorExpr{X: ast.NewIdent(x), Sel: ast.NewIdent(s)} }

func (r *rw) chanType(ct *ast.ChanType) ast.Expr {
	r.used = true
	r.stats["chantype"]++
	return &ast.StarExpr{X: &ast.IndexExpr{X: sel("vs", "Chan"), Index: r.expr(ct.Value)}}
}

func method(x ast.Expr, m string, args ...ast.Expr) *ast.CallExpr {
	return &ast.CallExpr{Fun: &ast.SelectorExpr{X: x, Sel: ast.NewIdent(m)}, Args: args}
}

// expr rewrites an expression tree.
func (r *rw) expr(e ast.Expr) ast.Expr {
	if e == nil {
		return nil
	}
	switch x := e.(type) {
	case *ast.ChanType:
		return r.chanType(x)
	case *ast.UnaryExpr:
		if x.Op == token.ARROW {
			r.used = true
			r.stats["recv"]++
			return method(r.expr(x.X), "Recv")
		}
		x.X = r.expr(x.X)
		return x
	case *ast.CallExpr:
		if id, ok := x.Fun.(*ast.Ident); ok {
			if id.Name == "close" && len(x.Args) == 1 {
				r.used = true
				r.stats["close"]++
				return method(r.expr(x.Args[0]), "Close")
			}
			if id.Name == "make" && len(x.Args) >= 1 {
				if ct, ok := x.Args[0].(*ast.ChanType); ok {
					r.used = true
					r.stats["makechan"]++
					var n ast.Expr = &ast.BasicLit{Kind: token.INT, Value: "0"}
					if len(x.Args) > 1 {
						n = r.expr(x.Args[1])
					}
					return &ast.CallExpr{Fun: &ast.IndexExpr{X: sel("vs", "MakeChan"), Index: r.expr(ct.Value)}, Args: []ast.Expr{n}}
				}
			}
		}
		if s, ok := x.Fun.(*ast.SelectorExpr); ok {
			if id, ok := s.X.(*ast.Ident); ok {
				if id.Name == "time" && s.Sel.Name == "Sleep" {
					r.used = true
					r.stats["sleep"]++
					x.Fun = sel("vs", "Sleep")
				}
				if testMode && id.Name == "time" && s.Sel.Name == "After" {
					r.used = true
					r.stats["after"]++
					x.Fun = sel("vs", "After")
				}
				if id.Name == "os" && s.Sel.Name == "Remove" {
					r.used = true
					r.stats["remove"]++
					x.Fun = sel("vs", "Remove")
				}
			}
		}
		x.Fun = r.expr(x.Fun)
		for i := range x.Args {
			x.Args[i] = r.expr(x.Args[i])
		}
		return x
	case *ast.SelectorExpr:
		if id, ok := x.X.(*ast.Ident); ok && id.Name == "sync" {
			r.used = true
			r.stats["sync."+x.Sel.Name]++
			return sel("vs", x.Sel.Name)
		}
		x.X = r.expr(x.X)
		return x
	case *ast.FuncLit:
		r.funcType(x.Type)
		r.block(x.Body)
		return x
	case *ast.CompositeLit:
		x.Type = r.expr(x.Type)
		for i := range x.Elts {
			x.Elts[i] = r.expr(x.Elts[i])
		}
		return x
	case *ast.KeyValueExpr:
		x.Key = r.expr(x.Key)
		x.Value = r.expr(x.Value)
		return x
	case *ast.ParenExpr:
		x.X = r.expr(x.X)
		return x
	case *ast.StarExpr:
		x.X = r.expr(x.X)
		return x
	case *ast.BinaryExpr:
		x.X = r.expr(x.X)
		x.Y = r.expr(x.Y)
		return x
	case *ast.IndexExpr:
		x.X = r.expr(x.X)
		x.Index = r.expr(x.Index)
		return x
	case *ast.SliceExpr:
		x.X = r.expr(x.X)
		x.Low, x.High, x.Max = r.expr(x.Low), r.expr(x.High), r.expr(x.Max)
		return x
	case *ast.TypeAssertExpr:
		x.X = r.expr(x.X)
		x.Type = r.expr(x.Type)
		return x
	case *ast.ArrayType:
		x.Len = r.expr(x.Len)
		x.Elt = r.expr(x.Elt)
		return x
	case *ast.MapType:
		x.Key = r.expr(x.Key)
		x.Value = r.expr(x.Value)
		return x
	case *ast.StructType:
		r.fields(x.Fields)
		return x
	case *ast.InterfaceType:
		r.fields(x.Methods)
		return x
	case *ast.FuncType:
		r.funcType(x)
		return x
	case *ast.Ellipsis:
		x.Elt = r.expr(x.Elt)
		return x
	}
	return e
}

func (r *rw) fields(fl *ast.FieldList) {
	if fl == nil {
		return
	}
	for _, f := range fl.List {
		f.Type = r.expr(f.Type)
	}
}

func (r *rw) funcType(ft *ast.FuncType) {
	r.fields(ft.Params)
	r.fields(ft.Results)
}

func (r *rw) block(b *ast.BlockStmt) {
	if b == nil {
		return
	}
	for i := range b.List {
		b.List[i] = r.stmt(b.List[i])
	}
}

func (r *rw) newTmp(p string) string { r.tmp++; return "_vs" + p + strconv.Itoa(r.tmp) }

func (r *rw) stmt(s ast.Stmt) ast.Stmt {
	switch x := s.(type) {
	case nil:
		return nil
	case *ast.BlockStmt:
		r.block(x)
	case *ast.ExprStmt:
		x.X = r.expr(x.X)
	case *ast.SendStmt:
		r.used = true
		r.stats["send"]++
		return &ast.ExprStmt{X: method(r.expr(x.Chan), "Send", r.expr(x.Value))}
	case *ast.AssignStmt:
		if len(x.Lhs) == 2 && len(x.Rhs) == 1 {
			if u, ok := x.Rhs[0].(*ast.UnaryExpr); ok && u.Op == token.ARROW {
				r.used = true
				r.stats["recv2"]++
				x.Rhs[0] = method(r.expr(u.X), "Recv2")
				return x
			}
		}
		for i := range x.Lhs {
			x.Lhs[i] = r.expr(x.Lhs[i])
		}
		for i := range x.Rhs {
			x.Rhs[i] = r.expr(x.Rhs[i])
		}
	case *ast.GoStmt:
		r.used = true
		r.stats["go"]++
		// bind function value and args now, run later.
		var pre []ast.Stmt
		call := x.Call
		call.Fun = r.expr(call.Fun)
		if _, isLit := call.Fun.(*ast.FuncLit); !isLit {
			fn := r.newTmp("f")
			pre = append(pre, &ast.AssignStmt{Lhs: []ast.Expr{ast.NewIdent(fn)}, Tok: token.DEFINE, Rhs: []ast.Expr{call.Fun}})
			call.Fun = ast.NewIdent(fn)
		}
		for i := range call.Args {
			a := r.newTmp("a")
			pre = append(pre, &ast.AssignStmt{Lhs: []ast.Expr{ast.NewIdent(a)}, Tok: token.DEFINE, Rhs: []ast.Expr{r.expr(call.Args[i])}})
			call.Args[i] = ast.NewIdent(a)
		}
		pos := r.fset.Position(x.Pos())
		label := &ast.BasicLit{Kind: token.STRING, Value: strconv.Quote(fmt.Sprintf("%s:%d", filepath.Base(pos.Filename), pos.Line))}
		goCall := &ast.ExprStmt{X: &ast.CallExpr{Fun: sel("vs", "Go"), Args: []ast.Expr{label,
			&ast.FuncLit{Type: &ast.FuncType{Params: &ast.FieldList{}}, Body: &ast.BlockStmt{List: []ast.Stmt{&ast.ExprStmt{X: call}}}}}}}
		return &ast.BlockStmt{List: append(pre, goCall)}
	case *ast.DeferStmt:
		x.Call = r.expr(x.Call).(*ast.CallExpr)
	case *ast.ReturnStmt:
		for i := range x.Results {
			x.Results[i] = r.expr(x.Results[i])
		}
	case *ast.IfStmt:
		x.Init = r.stmt(x.Init)
		x.Cond = r.expr(x.Cond)
		r.block(x.Body)
		x.Else = r.stmt(x.Else)
	case *ast.ForStmt:
		x.Init = r.stmt(x.Init)
		x.Cond = r.expr(x.Cond)
		x.Post = r.stmt(x.Post)
		r.block(x.Body)
	case *ast.RangeStmt:
		x.X = r.expr(x.X)
		r.block(x.Body)
	case *ast.SwitchStmt:
		x.Init = r.stmt(x.Init)
		x.Tag = r.expr(x.Tag)
		r.block(x.Body)
	case *ast.TypeSwitchStmt:
		x.Init = r.stmt(x.Init)
		x.Assign = r.stmt(x.Assign)
		r.block(x.Body)
	case *ast.CaseClause:
		for i := range x.List {
			x.List[i] = r.expr(x.List[i])
		}
		for i := range x.Body {
			x.Body[i] = r.stmt(x.Body[i])
		}
	case *ast.LabeledStmt:
		x.Stmt = r.stmt(x.Stmt)
	case *ast.DeclStmt:
		r.decl(x.Decl)
	case *ast.IncDecStmt:
		x.X = r.expr(x.X)
	case *ast.SelectStmt:
		return r.selectStmt(x)
	}
	return s
}

func (r *rw) selectStmt(x *ast.SelectStmt) ast.Stmt {
	r.used = true
	r.stats["select"]++
	var pre []ast.Stmt
	var cases []ast.Expr
	var clauses []ast.Stmt
	hasDefault := "false"
	idx := 0
	for _, c := range x.Body.List {
		cc := c.(*ast.CommClause)
		var body []ast.Stmt
		for _, b := range cc.Body {
			body = append(body, r.stmt(b))
		}
		if cc.Comm == nil {
			hasDefault = "true"
			clauses = append(clauses, &ast.CaseClause{List: []ast.Expr{&ast.BasicLit{Kind: token.INT, Value: "-1"}}, Body: body})
			continue
		}
		ch := r.newTmp("c")
		var head []ast.Stmt
		switch cm := cc.Comm.(type) {
		case *ast.SendStmt:
			pre = append(pre, &ast.AssignStmt{Lhs: []ast.Expr{ast.NewIdent(ch)}, Tok: token.DEFINE, Rhs: []ast.Expr{r.expr(cm.Chan)}})
			cases = append(cases, method(ast.NewIdent(ch), "SendCase", r.expr(cm.Value)))
		case *ast.ExprStmt: // <-ch
			u := cm.X.(*ast.UnaryExpr)
			pre = append(pre, &ast.AssignStmt{Lhs: []ast.Expr{ast.NewIdent(ch)}, Tok: token.DEFINE, Rhs: []ast.Expr{r.expr(u.X)}})
			cases = append(cases, method(ast.NewIdent(ch), "RecvCase"))
		case *ast.AssignStmt: // v := <-ch ; v, ok := <-ch ; v = <-ch
			u := cm.Rhs[0].(*ast.UnaryExpr)
			pre = append(pre, &ast.AssignStmt{Lhs: []ast.Expr{ast.NewIdent(ch)}, Tok: token.DEFINE, Rhs: []ast.Expr{r.expr(u.X)}})
			cases = append(cases, method(ast.NewIdent(ch), "RecvCase"))
			m := "Got"
			if len(cm.Lhs) == 2 {
				m = "Got2"
			}
			head = append(head, &ast.AssignStmt{Lhs: cm.Lhs, Tok: cm.Tok, Rhs: []ast.Expr{method(ast.NewIdent(ch), m)}})
			// silence "declared and not used" for := forms
			if cm.Tok == token.DEFINE {
				for _, l := range cm.Lhs {
					if id, ok := l.(*ast.Ident); ok && id.Name != "_" {
						head = append(head, &ast.AssignStmt{Lhs: []ast.Expr{ast.NewIdent("_")}, Tok: token.ASSIGN, Rhs: []ast.Expr{ast.NewIdent(id.Name)}})
					}
				}
			}
		}
		clauses = append(clauses, &ast.CaseClause{List: []ast.Expr{&ast.BasicLit{Kind: token.INT, Value: strconv.Itoa(idx)}}, Body: append(head, body...)})
		idx++
	}
	pos := r.fset.Position(x.Pos())
	label := &ast.BasicLit{Kind: token.STRING, Value: strconv.Quote(fmt.Sprintf("%s:%d", filepath.Base(pos.Filename), pos.Line))}
	args := append([]ast.Expr{label, ast.NewIdent(hasDefault)}, cases...)
	sw := &ast.SwitchStmt{Tag: &ast.CallExpr{Fun: sel("vs", "Select"), Args: args}, Body: &ast.BlockStmt{List: clauses}}
	list := append(pre, sw)
	allTerm := true
	for _, c := range clauses {
		b := c.(*ast.CaseClause).Body
		if len(b) == 0 {
			allTerm = false
			break
		}
		if _, ok := b[len(b)-1].(*ast.ReturnStmt); !ok {
			allTerm = false
		}
	}
	if allTerm {
		list = append(list, &ast.ExprStmt{X: &ast.CallExpr{Fun: ast.NewIdent("panic"), Args: []ast.Expr{&ast.BasicLit{Kind: token.STRING, Value: `"vs: unreachable"`}}}})
	}
	return &ast.BlockStmt{List: list}
}

func (r *rw) decl(d ast.Decl) {
	switch x := d.(type) {
	case *ast.GenDecl:
		for _, sp := range x.Specs {
			switch s := sp.(type) {
			case *ast.TypeSpec:
				s.Type = r.expr(s.Type)
			case *ast.ValueSpec:
				s.Type = r.expr(s.Type)
				for i := range s.Values {
					s.Values[i] = r.expr(s.Values[i])
				}
			}
		}
	case *ast.FuncDecl:
		r.fields(x.Recv)
		r.funcType(x.Type)
		r.block(x.Body)
	}
}

func rewriteFile(name string, src []byte, stats map[string]int) ([]byte, error) {
	fset := token.NewFileSet()
	f, err := parser.ParseFile(fset, name, src, parser.ParseComments)
	if err != nil {
		return nil, err
	}
	r := &rw{fset: fset, stats: stats}
	for _, d := range f.Decls {
		r.decl(d)
	}
	// fix imports: drop "sync" (fully replaced), add vs.
	{
		found := false
		for _, d := range f.Decls {
			if gd, ok := d.(*ast.GenDecl); ok && gd.Tok == token.IMPORT {
				found = true
			}
		}
		if !found {
			gd := &ast.GenDecl{Tok: token.IMPORT}
			f.Decls = append([]ast.Decl{gd}, f.Decls...)
		}
		for _, d := range f.Decls {
			gd, ok := d.(*ast.GenDecl)
			if !ok || gd.Tok != token.IMPORT {
				continue
			}
			var specs []ast.Spec
			for _, sp := range gd.Specs {
				is := sp.(*ast.ImportSpec)
				if is.Path.Value == `"sync"` {
					continue
				}
				specs = append(specs, sp)
			}
			specs = append(specs, &ast.ImportSpec{Name: ast.NewIdent("vs"), Path: &ast.BasicLit{Kind: token.STRING, Value: strconv.Quote(vsPath)}})
			gd.Specs = specs
			if gd.Lparen == token.NoPos {
				gd.Lparen = gd.Pos()
				gd.Rparen = gd.End()
			}
			break
		}
	}
	f.Comments = nil // drop comments (build tags in surviving files are default-on)
	var buf bytes.Buffer
	if err := format.Node(&buf, fset, f); err != nil {
		return nil, err
	}
	out := buf.Bytes()
	// unused imports (time/os) after rewriting are handled by adding blank uses.
	out = append(out, []byte("\nvar _ vs.Mutex\n")...)
	for _, im := range f.Imports {
		switch im.Path.Value {
		case `"time"`:
			if im.Name == nil {
				out = append(out, []byte("var _ time.Duration\n")...)
			}
		case `"os"`:
			if im.Name == nil {
				out = append(out, []byte("var _ os.FileMode\n")...)
			}
		}
	}
	return out, nil
}
