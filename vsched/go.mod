module vsched

go 1.23
