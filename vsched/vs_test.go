//go:build !vsreal

package vs

import (
	"fmt"
	"testing"
)

// helpers ---------------------------------------------------------------

func runAll(s *Sched) {
	for {
		prog := false
		for i := 0; i < s.NumThreads(); i++ {
			t := s.Thread(i)
			if s.Enabled(t) {
				s.Step(t, 0)
				prog = true
			}
		}
		if !prog {
			return
		}
	}
}

func allDone(s *Sched) bool {
	for i := 0; i < s.NumThreads(); i++ {
		if !s.Thread(i).Done {
			return false
		}
	}
	return true
}

func quiesce(s *Sched, t *Thread) {
	for s.Enabled(t) {
		s.Step(t, 0)
	}
}

// tests -----------------------------------------------------------------

func TestUnbufferedRendezvousBothOrders(t *testing.T) {
	for _, senderFirst := range []bool{true, false} {
		s := New()
		c := MakeChan[int](0)
		got := -1
		after := false
		snd := s.Spawn("snd", func() { c.Send(7); after = true })
		rcv := s.Spawn("rcv", func() { got = c.Recv() })
		first, second := snd, rcv
		if !senderFirst {
			first, second = rcv, snd
		}
		s.Step(first, 0) // parks at the channel op
		if s.Enabled(first) {
			t.Fatalf("first should block (senderFirst=%v)", senderFirst)
		}
		s.Step(second, 0) // parks at its op; now both are enabled
		if !s.Enabled(first) || !s.Enabled(second) {
			t.Fatalf("both should be enabled")
		}
		runAll(s)
		if got != 7 || !after || !allDone(s) {
			t.Fatalf("got=%d after=%v done=%v", got, after, allDone(s))
		}
	}
}

func TestBufferedFullEmpty(t *testing.T) {
	s := New()
	c := MakeChan[int](1)
	var got []int
	snd := s.Spawn("snd", func() { c.Send(1); c.Send(2); c.Send(3) })
	rcv := s.Spawn("rcv", func() { got = append(got, c.Recv(), c.Recv(), c.Recv()) })
	quiesce(s, snd) // sends 1, blocks on 2 (buffer full)
	if snd.Done || c.Len() != 1 {
		t.Fatalf("sender should be blocked with a full buffer, len=%d", c.Len())
	}
	quiesce(s, rcv)
	runAll(s)
	if fmt.Sprint(got) != "[1 2 3]" || !allDone(s) {
		t.Fatalf("got %v", got)
	}
	// empty buffered channel blocks the receiver
	s = New()
	c = MakeChan[int](2)
	r := s.Spawn("r", func() { c.Recv() })
	quiesce(s, r)
	if r.Done || s.Enabled(r) {
		t.Fatalf("receiver on empty buffered channel must block")
	}
	s.Kill()
}

func TestCloseWakesReceivers(t *testing.T) {
	s := New()
	c := MakeChan[int](0)
	oks := []bool{true, true}
	r1 := s.Spawn("r1", func() { _, oks[0] = c.Recv2() })
	r2 := s.Spawn("r2", func() { _, oks[1] = c.Recv2() })
	quiesce(s, r1)
	quiesce(s, r2)
	if s.Enabled(r1) || s.Enabled(r2) {
		t.Fatal("receivers must block")
	}
	c.Close()
	runAll(s)
	if oks[0] || oks[1] || !allDone(s) {
		t.Fatalf("oks=%v", oks)
	}
}

func TestSendOnClosedPanics(t *testing.T) {
	s := New()
	c := MakeChan[int](1)
	c.Close()
	th := s.Spawn("s", func() { c.Send(1) })
	runAll(s)
	if th.Panic == nil || fmt.Sprint(th.Panic) != "send on closed channel" {
		t.Fatalf("panic=%v", th.Panic)
	}
	th2 := s.Spawn("c", func() { c.Close() })
	runAll(s)
	if fmt.Sprint(th2.Panic) != "close of closed channel" {
		t.Fatalf("panic=%v", th2.Panic)
	}
}

func TestNilChannelBlocks(t *testing.T) {
	s := New()
	var c *Chan[int]
	th := s.Spawn("r", func() { c.Recv() })
	quiesce(s, th)
	if th.Done || s.Enabled(th) {
		t.Fatal("nil channel receive must block forever")
	}
	if s.Kill() != 1 {
		t.Fatal("kill count")
	}
	if !th.Done {
		t.Fatal("killed thread must finish")
	}
}

func TestSelectDefaultAndChoice(t *testing.T) {
	s := New()
	a, b := MakeChan[int](1), MakeChan[int](1)
	res := 99
	th := s.Spawn("sel", func() {
		switch Select("l", true, a.RecvCase(), b.RecvCase()) {
		case 0:
			res = 0
		case 1:
			res = 1
		case -1:
			res = -1
		}
	})
	runAll(s)
	if res != -1 {
		t.Fatalf("default expected, res=%d", res)
	}
	_ = th
	for choice := 0; choice < 2; choice++ {
		s = New()
		a, b = MakeChan[int](1), MakeChan[int](1)
		a.Send(10)
		b.Send(20)
		var v int
		th := s.Spawn("sel", func() {
			switch Select("l", false, a.RecvCase(), b.RecvCase()) {
			case 0:
				v = a.Got()
			case 1:
				v = b.Got()
			}
		})
		s.Step(th, 0) // park at select
		if s.NumChoices(th) != 2 {
			t.Fatalf("choices=%d", s.NumChoices(th))
		}
		s.Step(th, choice)
		if v != 10*(choice+1) {
			t.Fatalf("choice %d gave %d", choice, v)
		}
	}
}

func TestSelectSendCase(t *testing.T) {
	s := New()
	c := MakeChan[int](0)
	stop := MakeChan[struct{}](0)
	sent := false
	w := s.Spawn("w", func() {
		switch Select("l", false, stop.RecvCase(), c.SendCase(5)) {
		case 0:
		case 1:
			sent = true
		}
	})
	got := 0
	r := s.Spawn("r", func() { got = c.Recv() })
	quiesce(s, w)
	if s.Enabled(w) {
		t.Fatal("select must block")
	}
	runAll(s)
	if !sent || got != 5 || !w.Done || !r.Done {
		t.Fatalf("sent=%v got=%d", sent, got)
	}
}

func TestMutexHandOverAndCond(t *testing.T) {
	s := New()
	var mu Mutex
	cond := NewCond(&mu)
	ready := false
	woke := 0
	w1 := s.Spawn("w1", func() {
		mu.Lock()
		for !ready {
			cond.Wait()
		}
		woke++
		mu.Unlock()
	})
	w2 := s.Spawn("w2", func() {
		mu.Lock()
		for !ready {
			cond.Wait()
		}
		woke++
		mu.Unlock()
	})
	quiesce(s, w1)
	quiesce(s, w2)
	if s.Enabled(w1) || s.Enabled(w2) {
		t.Fatal("waiters must block: no spurious wake-ups")
	}
	b := s.Spawn("b", func() {
		mu.Lock()
		ready = true
		cond.Broadcast()
		Yield("holding")
		mu.Unlock()
	})
	s.Step(b, 0) // at lock
	s.Step(b, 0) // locked, broadcast, parked at yield while holding the lock
	if s.Enabled(w1) || s.Enabled(w2) {
		t.Fatal("woken waiters must not run while the mutex is held")
	}
	runAll(s)
	if woke != 2 || !allDone(s) {
		t.Fatalf("woke=%d", woke)
	}
	// Signal wakes exactly one, in FIFO order.
	s = New()
	var mu2 Mutex
	c2 := NewCond(&mu2)
	order := ""
	mk := func(n string) *Thread {
		return s.Spawn(n, func() { mu2.Lock(); c2.Wait(); order += n; mu2.Unlock() })
	}
	a, bb := mk("a"), mk("b")
	quiesce(s, a)
	quiesce(s, bb)
	c2.Signal()
	runAll(s)
	if order != "a" || !a.Done || bb.Done {
		t.Fatalf("order=%q", order)
	}
	c2.Signal()
	runAll(s)
	if order != "ab" {
		t.Fatalf("order=%q", order)
	}
	// Unlock of an unlocked mutex panics as in sync.
	s = New()
	var mu3 Mutex
	p := s.Spawn("p", func() { mu3.Unlock() })
	runAll(s)
	if p.Panic == nil {
		t.Fatal("expected panic")
	}
}

func TestGoAndSleepBudget(t *testing.T) {
	s := New()
	n := 0
	p := s.Spawn("p", func() {
		Go("child", func() { n++ })
		for i := 0; i < 3; i++ {
			Sleep(1)
			n += 10
		}
	})
	s.SleepBudget = 2
	runAll(s)
	if n != 21 || p.Done {
		t.Fatalf("n=%d done=%v (two timer firings allowed)", n, p.Done)
	}
	s.SleepFree = true
	runAll(s)
	if n != 31 || !p.Done {
		t.Fatalf("n=%d", n)
	}
}

func TestReplayDeterminism(t *testing.T) {
	run := func() string {
		s := New()
		s.RecordTrace = true
		var mu Mutex
		c := MakeChan[int](0)
		out := ""
		s.Spawn("a", func() { mu.Lock(); out += "a"; mu.Unlock(); c.Send(1) })
		s.Spawn("b", func() { mu.Lock(); out += "b"; mu.Unlock(); c.Recv() })
		runAll(s)
		return out + fmt.Sprint(s.Trace())
	}
	if a, b := run(), run(); a != b {
		t.Fatalf("replay differs:\n%s\n%s", a, b)
	}
}

func TestControllerContextOps(t *testing.T) {
	s := New()
	var mu Mutex
	mu.Lock()
	mu.Unlock()
	c := MakeChan[int](1)
	c.Send(3)
	if c.Recv() != 3 {
		t.Fatal("controller send/recv")
	}
	defer func() {
		if recover() == nil {
			t.Fatal("controller blocking must panic")
		}
		_ = s
	}()
	c.Recv()
}
