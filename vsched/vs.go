//go:build !vsreal

// Package vs is a cooperative, controlled scheduler onto which the rewritten
// moss sources route every synchronisation operation (sync.Mutex, sync.Cond,
// channels, select, go statements, time.Sleep, os.Remove).
//
// Exactly one registered thread runs at a time.  Every modelled operation
// parks the calling thread *before* the operation ("schedule point"); the
// controller (the explorer) picks an enabled thread with Step; the operation
// then completes atomically and the thread runs to its next schedule point.
//
// The same source is used for the plain explorer builds and for the -race
// build (tag vsrace).  For the latter every function is //go:norace and the
// scheduler's shared state uses no maps and no growing slices, so that the
// race detector sees none of the scheduler's own serialisation.
package vs

import (
	"os"
	"runtime"
	"runtime/debug"
	"time"
)

// Kind of a pending operation.
type Kind uint8

const (
	KNone Kind = iota
	KStart
	KLock
	KCondWait
	KChanOp // send / recv / select
	KSleep
	KRemove
	KYield
	KBlock // harness-controlled block: enabled iff *flag
)

var kindNames = [...]string{"none", "start", "lock", "condwait", "chan", "sleep", "remove", "yield", "block"}

//go:norace
func (k Kind) String() string { return kindNames[k] }

const (
	maxThreads = 512
	maxTrace   = 1 << 16
)

type caseDesc struct {
	ch   chanI
	send bool
	val  any
}

type op struct {
	kind   Kind
	label  string
	mu     *Mutex
	cond   *Cond
	cases  []caseDesc
	hasDef bool
	woken  bool // cond: signalled
	done   bool // chan op completed by a partner while parked
	chosen int
	val    any
	ok     bool
	seq    int
	flag   *bool
	rel    hbTok // race build: released by the parking thread before it parks
	acc    hbTok // race build: released by the completing partner, acquired on resume
}

// Thread is one goroutine registered with the scheduler.
type Thread struct {
	ID      int
	Name    string
	Done    bool
	Panic   any
	PanicSt string
	pending *op
	choice  int
	gotVal  any
	gotOk   bool
	killed  bool
	hand    handoff
	Steps   int
}

// StepRec is one entry of the execution trace used for replay checking.
type StepRec struct {
	Tid   int
	Kind  Kind
	Label string
}

// Sched is the scheduler state of one execution.
type Sched struct {
	threads  [maxThreads]*Thread
	nthreads int
	cur      *Thread
	seq      int
	Points   int
	ctl      handoff

	// SleepBudget is the number of modelled timer firings still allowed.
	SleepBudget int
	// SleepFree makes every Sleep enabled regardless of the budget (used once Close has begun).
	SleepFree bool

	OnRemove func(path string)
	// NoRealRemove makes vs.Remove skip the real unlink (never used by checks; for tests).
	dead bool

	RecordTrace bool
	trace       []StepRec

	ctlGotVal any
	ctlGotOk  bool
}

// S is the scheduler of the current execution (one per process at a time).
var S *Sched

//go:norace
func New() *Sched {
	s := &Sched{}
	s.ctl.init()
	S = s
	return s
}

//go:norace
func (s *Sched) NumThreads() int { return s.nthreads }

//go:norace
func (s *Sched) Thread(i int) *Thread { return s.threads[i] }

//go:norace
func (s *Sched) Trace() []StepRec { return s.trace }

// Spawn registers a new thread that will run f when first stepped.
//
//go:norace
func (s *Sched) Spawn(name string, f func()) *Thread {
	if s.nthreads >= maxThreads {
		panic("vs: too many threads")
	}
	t := &Thread{ID: s.nthreads, Name: name, pending: &op{kind: KStart, label: name}}
	t.hand.init()
	s.threads[s.nthreads] = t
	s.nthreads++
	startGoroutine(s, t, f)
	return t
}

//go:norace
func threadMain(s *Sched, t *Thread, f func()) {
	t.hand.wait()
	defer threadExit(s, t)
	if t.killed {
		return
	}
	t.pending = nil
	// a fault (e.g. a read of memory that moss has unmapped) becomes a panic of this thread, which threadExit
	// records, instead of killing the whole process
	debug.SetPanicOnFault(true)
	f()
}

//go:norace
func threadExit(s *Sched, t *Thread) {
	if r := recover(); r != nil {
		if !s.dead {
			t.Panic = r
			buf := make([]byte, 4096)
			buf = buf[:runtime.Stack(buf, false)]
			t.PanicSt = string(buf)
		}
	}
	t.Done = true
	t.pending = nil
	if s.cur == t {
		s.cur = nil
	}
	s.ctl.signal()
}

// Go is what a rewritten `go f(x)` statement calls.
//
//go:norace
func Go(label string, f func()) {
	if S == nil || S.dead {
		return
	}
	S.Spawn(label, f)
}

//go:norace
func (s *Sched) caseReady(t *Thread, c *caseDesc) bool {
	if c.ch == nil || c.ch.isNil() {
		return false
	}
	if c.send {
		return c.ch.isClosed() || c.ch.hasRoom() || s.partner(t, c.ch, false) != nil
	}
	return c.ch.hasData() || c.ch.isClosed() || s.partner(t, c.ch, true) != nil
}

// partner finds the earliest-parked other thread with a not yet completed
// pending case on ch in the given direction.
//
//go:norace
func (s *Sched) partner(self *Thread, ch chanI, wantSend bool) *Thread {
	var best *Thread
	for i := 0; i < s.nthreads; i++ {
		t := s.threads[i]
		if t == self || t.Done || t.pending == nil || t.pending.done || t.pending.kind != KChanOp {
			continue
		}
		for j := range t.pending.cases {
			c := &t.pending.cases[j]
			if c.ch == ch && c.send == wantSend {
				if best == nil || t.pending.seq < best.pending.seq {
					best = t
				}
			}
		}
	}
	return best
}

// ReadyCases lists the indices of the select cases of t's pending channel operation that could proceed now.
//
//go:norace
func (s *Sched) ReadyCases(t *Thread) []int {
	p := t.pending
	if p == nil || p.kind != KChanOp || p.done {
		return nil
	}
	r := make([]int, 0, len(p.cases))
	for i := range p.cases {
		if s.caseReady(t, &p.cases[i]) {
			r = append(r, i)
		}
	}
	return r
}

// NumChoices is the number of distinct ways Step(t, c) can proceed (>1 only for a select with several ready cases).
//
//go:norace
func (s *Sched) NumChoices(t *Thread) int {
	p := t.pending
	if p == nil || p.kind != KChanOp || p.done {
		return 1
	}
	n := 0
	for i := range p.cases {
		if s.caseReady(t, &p.cases[i]) {
			n++
		}
	}
	if n == 0 {
		return 1
	}
	return n
}

//go:norace
func (s *Sched) Enabled(t *Thread) bool {
	if t.Done {
		return false
	}
	p := t.pending
	if p == nil {
		return false // running (only during a step)
	}
	if p.done {
		return true
	}
	switch p.kind {
	case KStart, KRemove, KYield:
		return true
	case KSleep:
		return s.SleepFree || s.SleepBudget > 0
	case KLock:
		return !p.mu.locked
	case KCondWait:
		return p.woken && !p.mu.locked
	case KBlock:
		return *p.flag
	case KChanOp:
		if p.hasDef {
			return true
		}
		for i := range p.cases {
			if s.caseReady(t, &p.cases[i]) {
				return true
			}
		}
		return false
	}
	return false
}

// PendingKind / PendingLabel describe where t is parked.
//
//go:norace
func (t *Thread) PendingKind() Kind {
	if t.Done || t.pending == nil {
		return KNone
	}
	return t.pending.kind
}

//go:norace
func (t *Thread) PendingLabel() string {
	if t.Done || t.pending == nil {
		return ""
	}
	return t.pending.label
}

// AtGateLock reports whether t is parked before acquiring a mutex marked as gate.
//
//go:norace
func (t *Thread) AtGateLock() bool {
	return !t.Done && t.pending != nil && t.pending.kind == KLock && t.pending.mu.Gate
}

// PendingMutex returns the mutex t is about to lock (or re-lock after a cond wait), if any.
//
//go:norace
func (t *Thread) PendingMutex() *Mutex {
	if t.Done || t.pending == nil {
		return nil
	}
	return t.pending.mu
}

// Step resumes thread t until its next schedule point (or its end).
// choice selects among the ready cases of a select.
//
//go:norace
func (s *Sched) Step(t *Thread, choice int) {
	if !s.Enabled(t) {
		panic("vs: step of disabled thread " + t.Name)
	}
	if s.RecordTrace {
		if s.trace == nil {
			s.trace = make([]StepRec, 0, maxTrace)
		}
		if len(s.trace) >= maxTrace {
			panic("vs: trace overflow")
		}
		s.trace = append(s.trace, StepRec{t.ID, t.pending.kind, t.pending.label})
	}
	if t.pending.kind == KSleep && !s.SleepFree {
		s.SleepBudget--
	}
	t.Steps++
	s.cur = t
	t.choice = choice
	t.hand.signal()
	s.ctl.wait()
	s.cur = nil
}

// point parks the current thread before an operation and returns the controller's choice.
//
//go:norace
func (s *Sched) point(p *op) int {
	t := s.cur
	s.seq++
	s.Points++
	p.seq = s.seq
	t.pending = p
	s.cur = nil
	s.ctl.signal()
	t.hand.wait()
	if t.killed {
		t.pending = nil
		runtime.Goexit()
	}
	t.pending = nil
	return t.choice
}

//go:norace
func inThread() bool { return S != nil && S.cur != nil }

//go:norace
func dead() bool { return S == nil || S.dead }

// Kill terminates every unfinished thread (their deferred functions run with all
// modelled operations turned into no-ops).  Used to tear down an execution that
// ended with blocked threads.
//
//go:norace
func (s *Sched) Kill() int {
	s.dead = true
	n := 0
	for i := 0; i < s.nthreads; i++ {
		t := s.threads[i]
		if t.Done {
			continue
		}
		n++
		t.killed = true
		s.cur = t
		t.hand.signal()
		s.ctl.wait()
		s.cur = nil
	}
	return n
}

// ---------------------------------------------------------------- Mutex / Cond

// Mutex replaces sync.Mutex.
type Mutex struct {
	locked bool
	Gate   bool
	owner  int
	hb     hbMutex
}

//go:norace
func (m *Mutex) Lock() {
	if dead() {
		return
	}
	if !inThread() {
		if m.locked {
			panic("vs: controller would block on mutex")
		}
		m.locked = true
		m.owner = -1
		m.hb.lock()
		return
	}
	S.point(&op{kind: KLock, mu: m})
	if m.locked {
		panic("vs: scheduled onto locked mutex")
	}
	m.locked = true
	m.owner = S.cur.ID
	m.hb.lock()
}

//go:norace
func (m *Mutex) Unlock() {
	if dead() {
		return
	}
	if !m.locked {
		panic("sync: unlock of unlocked mutex")
	}
	m.hb.unlock()
	m.locked = false
}

//go:norace
func (m *Mutex) IsLocked() bool { return m.locked }

// Locker is sync.Locker.
type Locker interface {
	Lock()
	Unlock()
}

// Cond replaces sync.Cond (only over *Mutex).
type Cond struct {
	L       Locker
	mu      *Mutex
	waiters [64]*op
	nw      int
}

//go:norace
func NewCond(l Locker) *Cond {
	m, ok := l.(*Mutex)
	if !ok {
		panic("vs: NewCond over a non-vs mutex")
	}
	return &Cond{L: l, mu: m}
}

//go:norace
func (c *Cond) Wait() {
	if dead() {
		return
	}
	if !inThread() {
		panic("vs: controller would block on cond")
	}
	p := &op{kind: KCondWait, mu: c.mu, cond: c}
	if c.nw >= len(c.waiters) {
		panic("vs: too many cond waiters")
	}
	c.waiters[c.nw] = p
	c.nw++
	c.mu.Unlock()
	S.point(p)
	if c.mu.locked {
		panic("vs: cond waiter scheduled onto locked mutex")
	}
	c.mu.locked = true
	c.mu.owner = S.cur.ID
	c.mu.hb.lock()
}

//go:norace
func (c *Cond) Broadcast() {
	for i := 0; i < c.nw; i++ {
		c.waiters[i].woken = true
		c.waiters[i] = nil
	}
	c.nw = 0
}

//go:norace
func (c *Cond) Signal() {
	if c.nw > 0 {
		c.waiters[0].woken = true
		copy(c.waiters[:c.nw-1], c.waiters[1:c.nw])
		c.nw--
		c.waiters[c.nw] = nil
	}
}

// ---------------------------------------------------------------- Chan

type chanI interface {
	isNil() bool
	isClosed() bool
	hasRoom() bool
	hasData() bool
	push(v any, tok hbTok)
	pop() (any, hbTok)
	closeTok() *hbClose
	slotTok() *hbAcc
	capacity() int
}

// Chan replaces chan T.
type Chan[T any] struct {
	buf    []T
	toks   []hbTok
	n      int
	cap    int
	closed bool
	hbc    hbClose
	hbs    hbAcc
}

//go:norace
func MakeChan[T any](n int) *Chan[T] {
	return &Chan[T]{cap: n, buf: make([]T, n), toks: make([]hbTok, n)}
}

//go:norace
func (c *Chan[T]) isNil() bool { return c == nil }

//go:norace
func (c *Chan[T]) isClosed() bool { return c.closed }

//go:norace
func (c *Chan[T]) hasRoom() bool { return c.n < c.cap }

//go:norace
func (c *Chan[T]) hasData() bool { return c.n > 0 }

//go:norace
func (c *Chan[T]) push(v any, tok hbTok) {
	var tv T
	if v != nil {
		tv = v.(T)
	}
	c.buf[c.n] = tv
	c.toks[c.n] = tok
	c.n++
}

//go:norace
func (c *Chan[T]) pop() (any, hbTok) {
	v := c.buf[0]
	tok := c.toks[0]
	copy(c.buf[:c.n-1], c.buf[1:c.n])
	copy(c.toks[:c.n-1], c.toks[1:c.n])
	c.n--
	var z T
	c.buf[c.n] = z
	c.toks[c.n] = hbTok{}
	return v, tok
}

//go:norace
func (c *Chan[T]) closeTok() *hbClose { return &c.hbc }

//go:norace
func (c *Chan[T]) slotTok() *hbAcc { return &c.hbs }

//go:norace
func (c *Chan[T]) capacity() int { return c.cap }

//go:norace
func (c *Chan[T]) ci() chanI {
	if c == nil {
		return nil
	}
	return c
}

// Len reports the number of buffered elements (controller diagnostics).
//
//go:norace
func (c *Chan[T]) Len() int {
	if c == nil {
		return 0
	}
	return c.n
}

// Case is one arm of a rewritten select.
type Case struct{ d caseDesc }

//go:norace
func (c *Chan[T]) RecvCase() Case { return Case{caseDesc{ch: c.ci()}} }

//go:norace
func (c *Chan[T]) SendCase(v T) Case { return Case{caseDesc{ch: c.ci(), send: true, val: v}} }

// doSelect performs a (possibly single-case) channel operation; it returns the
// chosen case index (-1 = default), the received value and ok.
//
//go:norace
func doSelect(label string, hasDef bool, cases []caseDesc) (int, any, bool) {
	if dead() {
		if hasDef {
			return -1, nil, false
		}
		return 0, nil, false
	}
	s := S
	p := &op{kind: KChanOp, label: label, cases: cases, hasDef: hasDef}
	var t *Thread
	choice := 0
	if inThread() {
		p.rel = hbRelease() // everything before this operation is published to whoever completes it
		choice = s.point(p)
		t = s.cur
		if p.done { // completed by a partner while parked
			p.acc.acquire()
			return p.chosen, p.val, p.ok
		}
	}
	nready := 0
	for i := range cases {
		if s.caseReady(t, &cases[i]) {
			nready++
		}
	}
	if nready == 0 {
		if hasDef {
			return -1, nil, false
		}
		panic("vs: channel operation with no ready case (controller would block) at " + label)
	}
	k := choice % nready
	idx := -1
	for i := range cases {
		if s.caseReady(t, &cases[i]) {
			if k == 0 {
				idx = i
				break
			}
			k--
		}
	}
	c := &cases[idx]
	if c.send {
		if c.ch.isClosed() {
			panic("send on closed channel")
		}
		if r := s.partner(t, c.ch, false); r != nil && !c.ch.hasData() {
			rp := r.pending
			for j := range rp.cases {
				rc := &rp.cases[j]
				if rc.ch == c.ch && !rc.send {
					if c.ch.capacity() == 0 {
						rp.rel.acquire() // unbuffered: the receive happens-before the send completes
					}
					rp.done, rp.chosen, rp.val, rp.ok = true, j, c.val, true
					rp.acc = hbRelease() // the send happens-before the receive completes
					break
				}
			}
		} else {
			c.ch.slotTok().acquire() // k-th receive happens-before (k+C)-th send completes (over-approximated)
			c.ch.push(c.val, hbRelease())
		}
		return idx, nil, false
	}
	// receive
	if c.ch.hasData() {
		v, tok := c.ch.pop()
		tok.acquire()
		if sd := s.partner(t, c.ch, true); sd != nil { // a blocked sender refills the buffer
			sp := sd.pending
			for j := range sp.cases {
				sc := &sp.cases[j]
				if sc.ch == c.ch && sc.send {
					c.ch.push(sc.val, sp.rel) // token released by the sender when it parked
					sp.done, sp.chosen = true, j
					sp.acc = hbRelease()
					break
				}
			}
		} else {
			c.ch.slotTok().release()
		}
		return idx, v, true
	}
	if sd := s.partner(t, c.ch, true); sd != nil {
		sp := sd.pending
		for j := range sp.cases {
			sc := &sp.cases[j]
			if sc.ch == c.ch && sc.send {
				sp.rel.acquire() // the send happens-before the receive completes
				sp.done, sp.chosen = true, j
				sp.acc = hbRelease() // unbuffered: the receive happens-before the send completes
				return idx, sc.val, true
			}
		}
	}
	// closed
	c.ch.closeTok().acquire()
	return idx, nil, false
}

// Select is what a rewritten select statement calls.
//
//go:norace
func Select(label string, hasDef bool, cases ...Case) int {
	ds := make([]caseDesc, len(cases))
	for i := range cases {
		ds[i] = cases[i].d
	}
	i, v, ok := doSelect(label, hasDef, ds)
	if dead() {
		return i
	}
	if t := S.cur; t != nil {
		t.gotVal, t.gotOk = v, ok
	} else {
		S.ctlGotVal, S.ctlGotOk = v, ok
	}
	return i
}

//go:norace
func (c *Chan[T]) Got() T { v, _ := c.Got2(); return v }

//go:norace
func (c *Chan[T]) Got2() (T, bool) {
	var z T
	if dead() {
		return z, false
	}
	var v any
	var ok bool
	if t := S.cur; t != nil {
		v, ok = t.gotVal, t.gotOk
	} else {
		v, ok = S.ctlGotVal, S.ctlGotOk
	}
	if v == nil {
		return z, ok
	}
	return v.(T), ok
}

//go:norace
func (c *Chan[T]) Send(v T) {
	doSelect("send", false, []caseDesc{{ch: c.ci(), send: true, val: v}})
}

//go:norace
func (c *Chan[T]) Recv() T { v, _ := c.Recv2(); return v }

//go:norace
func (c *Chan[T]) Recv2() (T, bool) {
	_, v, ok := doSelect("recv", false, []caseDesc{{ch: c.ci()}})
	var z T
	if v == nil {
		return z, ok
	}
	return v.(T), ok
}

//go:norace
func (c *Chan[T]) Close() {
	if dead() {
		return
	}
	if c == nil {
		panic("close of nil channel")
	}
	if c.closed {
		panic("close of closed channel")
	}
	c.hbc.release()
	c.closed = true
}

// ---------------------------------------------------------------- misc

// Sleep replaces time.Sleep: a schedule point that is enabled while the sleep budget lasts.
//
//go:norace
func Sleep(d time.Duration) {
	if dead() || !inThread() {
		return
	}
	S.point(&op{kind: KSleep, label: "sleep"})
}

// Remove replaces os.Remove: schedule point + notification + the real unlink.
//
//go:norace
func Remove(path string) error {
	if dead() {
		return nil
	}
	if inThread() {
		S.point(&op{kind: KRemove, label: path})
	}
	if S.OnRemove != nil {
		S.OnRemove(path)
	}
	return os.Remove(path)
}

// Yield is an explicit schedule point usable by harness callbacks.
//
//go:norace
func Yield(label string) {
	if dead() {
		return
	}
	if inThread() {
		S.point(&op{kind: KYield, label: label})
	}
}

// Block parks the calling thread until *flag is true (harness-controlled gate).
//
//go:norace
func Block(label string, flag *bool) {
	if dead() {
		return
	}
	if !inThread() {
		if !*flag {
			panic("vs: controller would block at " + label)
		}
		return
	}
	S.point(&op{kind: KBlock, label: label, flag: flag})
}

// InThread reports whether the caller runs inside a scheduled thread.
//
//go:norace
func InThread() bool { return inThread() }

// CurrentID returns the id of the running thread, or -1 for the controller.
//
//go:norace
func CurrentID() int {
	if S == nil || S.cur == nil {
		return -1
	}
	return S.cur.ID
}
