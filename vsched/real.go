//go:build vsreal

// Package vs, "real" variant: the same API the rewritten moss sources call, mapped one-to-one onto
// Go's own primitives (sync.Mutex, sync.Cond, chan, select via reflect, go, time.Sleep, os.Remove).
// It exists for one purpose: to run the repository's own test suite against the *rewritten* sources
// (free-running goroutines, no controlled scheduler), which shows that the syntactic rewrite by itself
// does not change moss's behaviour.
package vs

import (
	"os"
	"reflect"
	"runtime"
	"strconv"
	"strings"
	"sync"
	"time"
)

const RaceBuild = false

type Mutex struct {
	m    sync.Mutex
	Gate bool
}

func (m *Mutex) Lock()          { m.m.Lock() }
func (m *Mutex) Unlock()        { m.m.Unlock() }
func (m *Mutex) IsLocked() bool { return false }

type RWMutex = sync.RWMutex
type WaitGroup = sync.WaitGroup
type Once = sync.Once
type Locker = sync.Locker

type Cond struct {
	L Locker
	c *sync.Cond
}

func NewCond(l Locker) *Cond { return &Cond{L: l, c: sync.NewCond(l)} }
func (c *Cond) Wait()        { c.c.Wait() }
func (c *Cond) Broadcast()   { c.c.Broadcast() }
func (c *Cond) Signal()      { c.c.Signal() }

type Chan[T any] struct{ c chan T }

func MakeChan[T any](n int) *Chan[T] { return &Chan[T]{c: make(chan T, n)} }

func (c *Chan[T]) raw() chan T {
	if c == nil {
		return nil
	}
	return c.c
}

func (c *Chan[T]) Send(v T)         { c.raw() <- v }
func (c *Chan[T]) Recv() T          { return <-c.raw() }
func (c *Chan[T]) Recv2() (T, bool) { v, ok := <-c.raw(); return v, ok }
func (c *Chan[T]) Close()           { close(c.raw()) }
func (c *Chan[T]) Len() int         { return len(c.raw()) }

// Raw exposes the underlying channel (used for `for range` loops of rewritten test code).
func (c *Chan[T]) Raw() chan T { return c.raw() }

type Case struct{ sc reflect.SelectCase }

func (c *Chan[T]) RecvCase() Case {
	return Case{reflect.SelectCase{Dir: reflect.SelectRecv, Chan: reflect.ValueOf(c.raw())}}
}

func (c *Chan[T]) SendCase(v T) Case {
	return Case{reflect.SelectCase{Dir: reflect.SelectSend, Chan: reflect.ValueOf(c.raw()), Send: reflect.ValueOf(v)}}
}

type gotBox struct {
	v  reflect.Value
	ok bool
}

var (
	gotMu sync.Mutex
	gots  = map[int64]gotBox{}
)

func gid() int64 {
	var buf [64]byte
	s := string(buf[:runtime.Stack(buf[:], false)])
	s = strings.TrimPrefix(s, "goroutine ")
	if i := strings.IndexByte(s, ' '); i > 0 {
		s = s[:i]
	}
	n, _ := strconv.ParseInt(s, 10, 64)
	return n
}

// Select performs a real select over the cases (default when hasDef) and returns the chosen index (-1 = default).
func Select(label string, hasDef bool, cases ...Case) int {
	scs := make([]reflect.SelectCase, 0, len(cases)+1)
	for _, c := range cases {
		scs = append(scs, c.sc)
	}
	if hasDef {
		scs = append(scs, reflect.SelectCase{Dir: reflect.SelectDefault})
	}
	i, v, ok := reflect.Select(scs)
	if hasDef && i == len(cases) {
		return -1
	}
	gotMu.Lock()
	gots[gid()] = gotBox{v, ok}
	gotMu.Unlock()
	return i
}

func (c *Chan[T]) Got() T { v, _ := c.Got2(); return v }

func (c *Chan[T]) Got2() (T, bool) {
	gotMu.Lock()
	g := gots[gid()]
	gotMu.Unlock()
	var z T
	if !g.v.IsValid() {
		return z, g.ok
	}
	return g.v.Interface().(T), g.ok
}

func Go(label string, f func()) { go f() }

func Sleep(d time.Duration) { time.Sleep(d) }

func Remove(path string) error { return os.Remove(path) }

func Yield(label string) { runtime.Gosched() }

func Block(label string, flag *bool) {
	for !*flag {
		runtime.Gosched()
	}
}

// After mirrors time.After for rewritten test code.
func After(d time.Duration) *Chan[time.Time] {
	c := MakeChan[time.Time](1)
	go func() { time.Sleep(d); c.c <- time.Now() }()
	return c
}
