//go:build !vsrace && !vsreal

package vs

// Channel hand-off (fast; default).  Every hand-off is a happens-before edge,
// which is why this variant is useless under the race detector.

type handoff struct{ c chan struct{} }

func (h *handoff) init()   { h.c = make(chan struct{}) }
func (h *handoff) signal() { h.c <- struct{}{} }
func (h *handoff) wait()   { <-h.c }

func startGoroutine(s *Sched, t *Thread, f func()) { go threadMain(s, t, f) }

// Happens-before forwarding is only needed for the race detector.

type hbTok struct{}

func hbRelease() hbTok { return hbTok{} }
func (hbTok) acquire() {}

type hbClose struct{}

func (*hbClose) release() {}
func (*hbClose) acquire() {}

type hbAcc struct{}

func (*hbAcc) release() {}
func (*hbAcc) acquire() {}

type hbMutex struct{}

func (*hbMutex) lock()   {}
func (*hbMutex) unlock() {}

// RaceBuild reports whether this is the race-detector variant of the scheduler.
const RaceBuild = false
