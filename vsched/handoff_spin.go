//go:build vsrace && !vsreal

package vs

import (
	"runtime"
	"sync"
	"sync/atomic"
)

// Spin hand-off through plain memory touched only by //go:norace functions:
// the race detector sees no synchronisation between scheduler threads, so the
// only happens-before edges it knows are the ones forwarded below, which are
// exactly those the Go memory model gives the modelled primitives.
// Run with GOMAXPROCS=1.

type handoff struct{ flag int32 }

//go:norace
func (h *handoff) init() {}

//go:norace
func (h *handoff) signal() { h.flag = 1 }

//go:norace
func (h *handoff) wait() {
	for h.flag == 0 {
		runtime.Gosched()
	}
	h.flag = 0
}

//go:norace
func startGoroutine(s *Sched, t *Thread, f func()) { go threadMain(s, t, f) }

// hbTok: one release by its creator, acquired by whoever consumes it.
type hbTok struct{ p *uint64 }

//go:norace
func hbRelease() hbTok {
	p := new(uint64)
	atomic.StoreUint64(p, 1)
	return hbTok{p}
}

//go:norace
func (t hbTok) acquire() {
	if t.p != nil {
		atomic.LoadUint64(t.p)
	}
}

type hbClose struct{ v uint64 }

//go:norace
func (c *hbClose) release() { atomic.StoreUint64(&c.v, 1) }

//go:norace
func (c *hbClose) acquire() { atomic.LoadUint64(&c.v) }

// hbAcc accumulates releases of many threads (AddUint64 is acquire+release).
type hbAcc struct{ v uint64 }

//go:norace
func (c *hbAcc) release() { atomic.AddUint64(&c.v, 1) }

//go:norace
func (c *hbAcc) acquire() { atomic.LoadUint64(&c.v) }

type hbMutex struct{ m sync.Mutex }

//go:norace
func (h *hbMutex) lock() { h.m.Lock() }

//go:norace
func (h *hbMutex) unlock() { h.m.Unlock() }

const RaceBuild = true
