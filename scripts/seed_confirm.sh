#!/bin/bash
# seed_confirm.sh <dir-with-patch.diff-and-demo> : confirms a seeded change against /repo HEAD in a scratch worktree:
#   demo passes without the change, fails with it, and the pinned suite passes with it.
D="$1"
export GOFLAGS=-mod=mod GOPROXY=off GOSUMDB=off GOTOOLCHAIN=local
WT=$(mktemp -d /tmp/seedwt.XXXXXX); rmdir "$WT"
git -C /repo worktree add -q --detach "$WT" HEAD || exit 2
trap 'git -C /repo worktree remove --force "$WT" >/dev/null 2>&1' EXIT
cd "$WT"
cp "$D"/zz_seed_demo_test.go . 2>/dev/null || cp "$D"/zz_seed_demo_test.go.txt ./zz_seed_demo_test.go 2>/dev/null || { echo "RESULT $D nodemo"; exit 0; }
RACE=""; grep -q '"race"' "$D/meta.json" 2>/dev/null && true
without=$(go test -vet=off -count=1 -timeout 10m -run 'Seed|ZZ' . 2>&1 | tail -1)
if ! git apply --3way "$D/patch.diff" >/dev/null 2>&1 && ! git apply "$D/patch.diff" >/dev/null 2>&1; then echo "RESULT $D applies=no without=[$without]"; exit 0; fi
with=$(go test -vet=off -count=1 -timeout 10m -run 'Seed|ZZ' . 2>&1 | tail -1)
rm -f zz_seed_demo_test.go
suite=$(bash /verif/scripts/suite.sh "$WT" 2>&1 | tail -1)
echo "RESULT $D applies=yes without=[$without] with=[$with] suite=[$suite]"
