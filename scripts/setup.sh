#!/bin/bash
# setup.sh: run once after a fresh restore (offline).  Warms the Go build cache under /verif/.cache by
# building the rewriter, the scheduler-routed moss copy and the harness (plain and -race variants), and
# runs the scheduler's own unit tests against Go's channel / mutex / cond semantics.
set -u
V="${VERIF_DIR:-/verif}"
export GOFLAGS=-mod=mod GOPROXY=off GOSUMDB=off GOTOOLCHAIN=local
export GOCACHE="${GOCACHE:-$V/.cache/go-build}"
mkdir -p "$GOCACHE" "$V/evidence" "$V/replays"
( cd "$V/vsched" && go test -count=1 ./... ) || { echo "setup: vsched unit tests failed" >&2; exit 1; }
ROOT=/dev/shm; [ -d "$ROOT" ] && [ -w "$ROOT" ] || ROOT="${TMPDIR:-/tmp}"
SCR=$(mktemp -d "$ROOT/mossverif-setup.XXXXXX") || exit 1
trap 'rm -rf "$SCR"' EXIT
bash "$V/scripts/build.sh" "$SCR" race || exit 1
"$SCR/bin/mossmc" list
# conformance of the rewrite: the repository's own suite on the rewritten sources with one-to-one real primitives
# (informational here: the suite has timing-sensitive tests that can flake on a loaded machine)
bash "$V/scripts/conformance.sh" 2>&1 | tail -3 | tee "$V/.cache/conformance.txt"
echo "setup: ok"
