#!/bin/bash
# replay.sh <replay-file>: rebuilds from /repo and re-executes one recorded violation.
set -u
V="${VERIF_DIR:-/verif}"
ROOT=/dev/shm; [ -d "$ROOT" ] && [ -w "$ROOT" ] || ROOT="${TMPDIR:-/tmp}"
SCR=$(mktemp -d "$ROOT/mossverif.XXXXXX") || exit 2
trap 'rm -rf "$SCR"' EXIT
export VERIF_SCRATCH="$SCR/work"; mkdir -p "$VERIF_SCRATCH"
bash "$V/scripts/build.sh" "$SCR" || exit 2
"$SCR/bin/mossmc" replay "$1"
