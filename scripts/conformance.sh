#!/bin/bash
# conformance.sh: runs the repository's own test suite against the REWRITTEN sources (sync/chan/select/go/
# time.Sleep/os.Remove routed to vsched), with vsched's "real" variant mapping every primitive one-to-one
# onto Go's own.  A pass shows that the syntactic rewrite itself does not change moss's behaviour.
set -u
V="${VERIF_DIR:-/verif}"; SRC="${MOSS_SRC:-/repo}"
export GOFLAGS=-mod=mod GOPROXY=off GOSUMDB=off GOTOOLCHAIN=local
export GOCACHE="${GOCACHE:-$V/.cache/go-build}"
ROOT=/dev/shm; [ -d "$ROOT" ] && [ -w "$ROOT" ] || ROOT="${TMPDIR:-/tmp}"
SCR=$(mktemp -d "$ROOT/mossconf.XXXXXX") || exit 2
trap 'rm -rf "$SCR"' EXIT
( cd "$V/rewrite" && go build -o "$SCR/rewrite" . ) || exit 2
"$SCR/rewrite" tests "$SRC" "$SCR/moss" > "$SCR/rewrite.log" || { cat "$SCR/rewrite.log"; exit 2; }
cd "$SCR/moss" || exit 2
{ echo "module github.com/couchbase/moss"; echo; echo "go 1.23"; echo; sed -n '/^require/,$p' "$SRC/go.mod"; echo; echo "require vsched v0.0.0"; echo "replace vsched => $V/vsched"; } > go.mod
cp "$SRC/go.sum" .
# `for x := range ch` over a rewritten channel cannot be recognised syntactically: fix up from the compiler's complaints
for pass in 1 2 3; do
  go vet -tags vsreal . > "$SCR/vet.log" 2>&1
  grep -q "cannot range over" "$SCR/vet.log" || break
  python3 - "$SCR/vet.log" <<'PY'
import re,sys
for l in open(sys.argv[1]):
    m=re.search(r'\./(\S+\.go):(\d+):\d+: cannot range over (\w+)', l)
    if not m: continue
    f,ln,name=m.group(1),int(m.group(2)),m.group(3)
    lines=open(f).read().split('\n')
    lines[ln-1]=re.sub(r'range '+name+r'\b', 'range '+name+'.Raw()', lines[ln-1])
    open(f,'w').write('\n'.join(lines))
PY
done
go test -tags vsreal -json -vet=off -count=1 -timeout 25m . 2>&1 | python3 -c '
import sys, json
p=f=0; failed=[]
for l in sys.stdin:
    try: e=json.loads(l)
    except Exception:
        continue
    if e.get("Test") and "/" not in e["Test"]:
        if e.get("Action")=="pass": p+=1
        elif e.get("Action")=="fail": f+=1; failed.append(e["Test"])
    if e.get("Action")=="output" and ("cannot" in e.get("Output","") or "undefined" in e.get("Output","")): sys.stderr.write(e["Output"])
print("CONFORMANCE rewritten-sources suite: pass=%d fail=%d %s" % (p,f,failed))
sys.exit(0 if f==0 and p>=64 else 1)
'
