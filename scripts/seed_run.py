#!/usr/bin/env python3
"""seed_run.py <srcdir> <name> <property> [more checks...] [--no-confirm]
Confirms a seeded change against /repo HEAD (scripts/seed_confirm.sh), runs the property's quick check (and any
other named checks) against a scratch copy of HEAD with the change applied (scripts/seed_detect.sh), and stores
the change with the results under /verif/seeded/<name>/ when the confirmation holds."""
import sys, subprocess, re, os
args = [a for a in sys.argv[1:] if not a.startswith('--')]
src, name, prop = args[0:3]
checks = [prop] + args[3:]
confirm = "not re-run"
ok = True
ct = [a for a in sys.argv[1:] if a.startswith('--confirm-text=')]
if ct:
    confirm = ct[0][len('--confirm-text='):]
elif '--no-confirm' not in sys.argv:
    best = None
    for attempt in range(3):  # the suite has load-sensitive tests; repeat a run that fails on one of them
        out = subprocess.run(['bash', '/verif/scripts/seed_confirm.sh', src], capture_output=True, text=True).stdout
        m = re.search(r'RESULT \S+ applies=(\w+)(?: without=\[(.*?)\])?(?: with=\[(.*?)\])?(?: suite=\[(.*?)\])?', out)
        if not m:
            best = "confirmation script produced no result"; ok = False; break
        applies, without, with_, suite = m.group(1), (m.group(2) or ''), (m.group(3) or ''), (m.group(4) or '')
        best = f"applies={applies}; demonstration without the change: {without.strip()[:60]}; with the change: {with_.strip()[:60]}; suite with the change: {suite.strip()[:120]}"
        ok = applies == 'yes' and without.strip().startswith('ok') and 'FAIL' in with_ and 'fail=0' in suite
        flaky = any(t in suite for t in ['TestStoreNilValue', 'Test_LevelCompactDeletes', 'Test_IdleCompactionThrottle', 'TestStoreCollHistograms', 'TestStoreCompactionDeletions'])
        if ok or not (applies == 'yes' and flaky):
            break
    confirm = best
print("CONFIRM", name, ok, confirm)
dets = []
for c in checks:
    out = subprocess.run(['bash', '/verif/scripts/seed_detect.sh', src, c], capture_output=True, text=True).stdout
    m = re.search(r'DETECT \S+ (C\d+) rc=(\d+) violations=(\d+) :: ?(.*)', out, re.S)
    if m:
        res = 'DETECTED' if m.group(2) == '1' else ('missed' if m.group(2) == '0' else 'infrastructure-error')
        dets.append(f"{c}:{res}:{m.group(4).strip()}")
        print("DETECT", name, c, res)
    else:
        dets.append(f"{c}:not-applicable:{out.strip()[:200]}")
        print("DETECT", name, c, "n/a", out.strip()[:200])
if ok:
    subprocess.run(['python3', '/verif/scripts/seed_store.py', src, name, prop, confirm] + dets)
else:
    print("NOT KEPT", name, confirm)
