#!/usr/bin/env python3
"""seed_store.py <srcdir> <name> <property> <confirm-line> <detect-lines...>
Stores one independently written property-breaking change under /verif/seeded/<name>/ :
patch.diff, the demonstration, meta.json (the author's description + what was re-confirmed here + which checks caught it)."""
import sys, os, json, shutil, re, datetime
src, name, prop = sys.argv[1:4]
confirm = sys.argv[4]
detects = sys.argv[5:]
dst = os.path.join('/verif/seeded', name)
os.makedirs(dst, exist_ok=True)
if os.path.abspath(src) != os.path.abspath(dst):
    shutil.copy(os.path.join(src, 'patch.diff'), os.path.join(dst, 'patch.diff'))
demo = os.path.join(src, 'zz_seed_demo_test.go')
if os.path.exists(demo) and os.path.abspath(src) != os.path.abspath(dst):
    shutil.copy(demo, os.path.join(dst, 'zz_seed_demo_test.go.txt'))
meta = {}
try:
    meta = json.load(open(os.path.join(src, 'meta.json')))
except Exception:
    pass
out = {
    "property": prop,
    "summary": meta.get("summary", ""),
    "needs_to_manifest": meta.get("needs_to_manifest", ""),
    "files_touched": meta.get("files_touched", []),
    "written_by": "independent sub-agent that saw only the property text and a scratch worktree",
    "confirmed_here": confirm,
    "checks_run": [],
    "note": "the demonstration is stored with a .txt suffix so that it is not compiled with /verif; copy it to <moss>/zz_seed_demo_test.go to run it",
}
for d in detects:
    m = re.match(r'(C\d+):(\w+):(.*)', d, re.S)
    if m:
        out["checks_run"].append({"check": m.group(1), "tier": "quick", "result": m.group(2), "first_violation": m.group(3)[:400]})
out["detected_by"] = sorted({c["check"] for c in out["checks_run"] if c["result"] == "DETECTED"})
json.dump(out, open(os.path.join(dst, 'meta.json'), 'w'), indent=1)
print(name, out["detected_by"])
