#!/bin/bash
# check.sh <property-id> [quick|thorough]
# Rebuilds from MOSS_SRC (default /repo), runs the property's check, removes the scratch build.
set -u
PROP="$1"; TIER="${2:-${VERIF_TIER:-quick}}"
V="${VERIF_DIR:-/verif}"
ROOT=/dev/shm; [ -d "$ROOT" ] && [ -w "$ROOT" ] || ROOT="${TMPDIR:-/tmp}"
SCR=$(mktemp -d "$ROOT/mossverif.XXXXXX") || exit 2
trap 'rm -rf "$SCR"' EXIT
export VERIF_SCRATCH="$SCR/work"; mkdir -p "$VERIF_SCRATCH"
RACE=""; [ "$PROP" = C17 ] && RACE=race
bash "$V/scripts/build.sh" "$SCR" $RACE || exit 2
export VERIF_DIR="$V"
export MOSSMC_RACE="$SCR/bin/mossmc-race"
"$SCR/bin/mossmc" check "$PROP" "$TIER"
exit $?
