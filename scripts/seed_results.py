#!/usr/bin/env python3
"""Regenerates /verif/seeded/RESULTS.md from the meta.json files under /verif/seeded/."""
import json, glob, os
rows = []
for d in sorted(glob.glob('/verif/seeded/*/meta.json')):
    m = json.load(open(d))
    name = os.path.basename(os.path.dirname(d))
    checks = ', '.join(f"{c['check']}: {c['result']}" for c in m.get('checks_run', []))
    rows.append((name, m.get('property', ''), (m.get('summary', '') or '').replace('\n', ' ')[:230], ', '.join(m.get('detected_by', [])) or '-', checks))
det = sum(1 for r in rows if r[3] != '-')
own = sum(1 for r in rows if r[1] in r[3].split(', '))
with open('/verif/seeded/RESULTS.md', 'w') as f:
    f.write("# Independently written property-breaking changes and the checks that catch them\n\n")
    f.write(f"{len(rows)} changes kept (each re-confirmed against /repo HEAD: demonstration passes without it, fails with it, the pinned suite passes with it).\n")
    f.write(f"Caught by at least one quick check: {det}; caught by the quick check of the property they were written for: {own}.\n\n")
    f.write("Every row is one `scripts/seed_run.py` run: `seed_confirm.sh` (scratch worktree of HEAD) and `seed_detect.sh <dir> <check>` (scratch copy of HEAD + patch, `MOSS_SRC`), quick tier.\n\n")
    f.write("| change | property | what it does | caught by | checks run (quick tier) |\n|---|---|---|---|---|\n")
    for r in rows:
        f.write(f"| {r[0]} | {r[1]} | {r[2]} | {r[3]} | {r[4]} |\n")
print(len(rows), det, own)
