#!/bin/bash
# build.sh <scratch-dir> [race]
# Rebuilds the harness from MOSS_SRC (default /repo) into <scratch-dir>/bin:
#   mossmc       - harness over the rewritten (scheduler-routed) moss copy
#   mossmc-race  - same, -race + vsrace hand-off (only when "race" is given)
# Exit 2 = cannot instrument / cannot build (never a violation).
set -u
SCR="$1"; RACE="${2:-}"
V="${VERIF_DIR:-/verif}"
SRC="${MOSS_SRC:-/repo}"
export GOFLAGS=-mod=mod GOPROXY=off GOSUMDB=off GOTOOLCHAIN=local
export GOCACHE="${GOCACHE:-$V/.cache/go-build}"
mkdir -p "$SCR/bin" "$GOCACHE" || exit 2
( cd "$V/rewrite" && go build -o "$SCR/bin/rewrite" . ) || { echo "build.sh: cannot build rewriter" >&2; exit 2; }
rm -rf "$SCR/moss-sched" "$SCR/mc"
"$SCR/bin/rewrite" sched "$SRC" "$SCR/moss-sched" >"$SCR/rewrite.log" 2>&1 || { cat "$SCR/rewrite.log" >&2; echo "build.sh: cannot instrument $SRC" >&2; exit 2; }
cp "$V/export/zz_verif_export.go" "$SCR/moss-sched/zz_verif_export.go"
cp "$V/export/zz_verif_export_sched.go.txt" "$SCR/moss-sched/zz_verif_export_sched.go"
# go.mod of the copy: same module path and requirements as the original, newer language version (generics in vsched)
{
  echo "module github.com/couchbase/moss"; echo; echo "go 1.23"; echo
  sed -n '/^require/,$p' "$SRC/go.mod"
  echo; echo "require vsched v0.0.0"; echo "replace vsched => $V/vsched"
} > "$SCR/moss-sched/go.mod"
cp "$SRC/go.sum" "$SCR/moss-sched/go.sum"
mkdir -p "$SCR/mc" && cp "$V"/mc/*.go "$SCR/mc/" || exit 2
cat > "$SCR/mc/go.mod" <<EOM
module mossmc

go 1.23

require (
	github.com/couchbase/moss v0.0.0
	vsched v0.0.0
)

replace github.com/couchbase/moss => $SCR/moss-sched

replace vsched => $V/vsched
EOM
cp "$SRC/go.sum" "$SCR/mc/go.sum"
( cd "$SCR/mc" && go build -o "$SCR/bin/mossmc" . ) >"$SCR/build.log" 2>&1 || { cat "$SCR/build.log" >&2; echo "build.sh: harness does not build against $SRC" >&2; exit 2; }
if [ "$RACE" = race ]; then
  ( cd "$SCR/mc" && go build -race -tags vsrace -o "$SCR/bin/mossmc-race" . ) >"$SCR/build-race.log" 2>&1 || { cat "$SCR/build-race.log" >&2; echo "build.sh: race harness does not build" >&2; exit 2; }
fi
exit 0
