#!/usr/bin/env python3
"""Regenerates /verif/MANIFEST.json from the table below (kept in one place so that it stays valid)."""
import json, sys

G1 = "explicit-state search (BFS with state deduplication) over step sequences of the real implementation under a controlled cooperative scheduler: fine-grained steps (driver call, merger cycle, persister half-rounds, single critical sections as deviations) and, in a second search, whole persistence rounds as steps (reaches leveled partial compactions)"
checks = {
 "C01": (G1, "4.1", "dump(Collection.Snapshot()) == reference ordered map in every reached state of every explored history x configuration"),
 "C02": (G1, "4.2", "every open snapshot / child snapshot / iterator / store snapshot is re-read after every later step and must still show what it showed when taken"),
 "C03": ("stateless DFS over thread interleavings (iterative preemption bounding) of writers, reader, merger and persister on the real implementation", "4.3", "per-snapshot atomic-prefix and monotonicity predicates on every explored schedule"),
 "C04": (G1, "4.4", "after every close+reopen: reopened == store content before close == reference after some prefix; full prefix when nothing was dirty"),
 "C05": ("exhaustive crash-point x disk-image enumeration over a recorded file-operation trace of the real write path", "4.5", "every crash point x every image the stated crash model allows is reopened with the real OpenStoreCollection"),
 "C06": ("exhaustive single-fault / burst enumeration over the recorded file-operation trace, real persister retry path", "4.6", "every operation identity x error kind x burst length; oracles after every step"),
 "C07": ("exhaustive enumeration of persistence-round sequences x compaction option points on the real collection+store", "4.7", "content equality after every round, full-compaction postconditions, directory hygiene"),
 "C08": (G1, "4.8", "order-sensitive merge operator; dump == model fold in every reached state; lower-level content a prefix state"),
 "C09": ("small-scope exhaustive enumeration: segment-stack shapes x lower-level variants x bounds x iterator call programs", "4.9", "sorted-slice cursor oracle after every iterator call"),
 "C10": (G1, "4.10", "Collection.Get == Snapshot.Get == iteration for every probe key in every reached state; copied values intact after closing everything"),
 "C11": (G1, "4.11", "recursive dump (child names at every level + contents) == reference tree in every reached state and after every reopen"),
 "C12": ("exhaustive enumeration of round sequences x walk depth x revert target x continuation on the real store", "4.12", "walk == exposed history since last compaction then nil; revert == current == durable (reopen and power-cut image); next round builds on it"),
 "C13": (G1, "4.13", "map lower level applying every `higher` by the documented protocol; prefix / overlay / re-offer / drained oracles in every reached state"),
 "C14": ("small-scope exhaustive enumeration: key sets x index quota x minKeyBytes x probes (in-package and public path)", "4.14", "sorted-slice model and index-vs-no-index differential"),
 "C15": (G1 + "; plus exhaustive single-fault enumeration over the recorded file-operation trace of the compacting workloads with C15's oracle after everything is closed", "4.15 and 10.8", "handles keep data readable; after closing everything in every order, and at the end of every I/O fault plan: no descriptor, no mapping, one data file"),
 "C16": ("stateless DFS over thread interleavings (iterative preemption bounding) incl. Close, blocked writers, stalled persister", "4.16", "every fair completion returns every call; top never exceeds MaxPreMergerBatches; ErrClosed semantics"),
 "C17": ("stateless DFS over thread interleavings with the Go race detector as per-execution oracle (race-invisible scheduler hand-off, happens-before forwarding)", "4.17", "race detector report on any explored schedule"),
 "C18": ("exhaustive enumeration: directory states (all crash images + hand-listed) x options x driver sequences, ReadOnly open", "4.18", "directory fingerprint unchanged, no mutating file operation, content == writable open of a copy"),
 "C19": ("small-scope exhaustive enumeration: byte-string alphabet^2 x batch form x API variant x options through 11 fixed data-path stages, plus key sets of uneven length and a burst of batches before one merger cycle", "4.19", "bytewise model comparison after each stage; exact limit errors"),
 "C20": (G1, "4.20", "zero gauges => store snapshot / lower level == reference and reopened copy == reference in every reached state; converse within 4 alternations"),
}
not_applicable = []
claimed = sys.argv[1:] if len(sys.argv) > 1 else sorted(checks)
m = {
 "version": 1,
 "setup_cmd": "bash scripts/setup.sh",
 "hooks": {
  "guard": "verif",
  "enable": "no hooks are committed to /repo: every check copies /repo's working tree into a scratch directory, routes sync/chan/select/go/time.Sleep/os.Remove through /verif/vsched with the fail-closed syntactic rewriter (/verif/rewrite) and adds the read-only export file /verif/export/zz_verif_export*.go to that copy",
  "baseline_off_cmd": "cd /repo && GOFLAGS=-mod=mod go test -json -vet=off -count=1 -timeout 25m ./...",
  "source_commits": [],
  "add_only": True
 },
 "engines": [
  {"name": "G1 history explorer", "path": "mc/g1.go", "serves_properties": ["C01","C02","C04","C08","C10","C11","C13","C15","C20"], "kind_free_text": "explicit-state BFS over driver/merger/persister/reopen step sequences with canonical private-state keys, successor = replay on a fresh instance"},
  {"name": "G2 schedule explorer", "path": "mc/g2.go", "serves_properties": ["C03","C16","C17"], "kind_free_text": "stateless DFS over all interleavings at every lock/cond/channel/select/spawn point with iterative preemption bounding"},
  {"name": "G3 trace explorer", "path": "mc/g3_crash.go", "serves_properties": ["C05","C06","C18"], "kind_free_text": "crash-point x disk-image and fault-plan enumeration over the recorded file-operation trace"},
  {"name": "G4 small-scope enumerators", "path": "mc/g4_c09.go", "serves_properties": ["C07","C09","C12","C14","C19"], "kind_free_text": "complete enumeration of inputs / round sequences / iterator programs up to a size against reference models"},
  {"name": "vsched", "path": "vsched/vs.go", "serves_properties": sorted(checks), "kind_free_text": "cooperative controlled scheduler modelling Mutex, Cond, channels, select, go, Sleep; race-detector-invisible variant under build tag vsrace"}
 ],
 "checks": [],
 "notes": "All checks are `bash scripts/check.sh <id> <tier>`: rebuild from /repo's working tree (MOSS_SRC overrides), run `mossmc check`, remove the scratch build. Exit 0 = held on everything explored, 1 = VIOLATION line(s), 2 = infrastructure problem (cannot instrument / build). known_findings.json is matched by exact signature.",
 "not_applicable": not_applicable,
}
for pid in claimed:
    tech, ref, what = checks[pid]
    m["checks"].append({
        "property_id": pid,
        "quick_cmd": f"bash scripts/check.sh {pid} quick",
        "thorough_cmd": f"bash scripts/check.sh {pid} thorough",
        "evidence_file": f"/verif/evidence/{pid}.json",
        "replay_cmd_template": "bash scripts/replay.sh {path}",
        "engine": [e["name"] for e in m["engines"] if pid in e["serves_properties"]][0],
        "level_claimed": {"category": "model_checking",
                          "text": f"Bounded exhaustive exploration of the implementation itself: {what}. Every explored trace is an execution of the real moss code (no separate model), so the bound stated in the evidence file is the only gap.",
                          "design_ref": "DESIGN.md section " + ref},
        "level_note": "Trusted: the vsched scheduler model of Go's mutex/cond/channel semantics (unit-tested), the syntactic rewriter (fail-closed), the harness reference model and oracles. Assumes sync/atomic operations need no schedule points, Linux/tmpfs semantics, 4096-byte pages.",
        "technique": tech,
    })
for pid in sorted(checks):
    if pid not in claimed:
        not_applicable.append({"property_id": pid, "reason": "check under construction in this session (see DESIGN.md section " + checks[pid][1] + "); not claimed until its machinery is committed"})
json.dump(m, open("/verif/MANIFEST.json", "w"), indent=1)
print("claimed", len(m["checks"]), "not_applicable", len(not_applicable))
