#!/bin/bash
# suite.sh <moss-dir> : runs the pinned 64-test suite of couchbase/moss in <moss-dir> and prints a summary line.
D="${1:-/repo}"
export GOFLAGS=-mod=mod GOPROXY=off GOSUMDB=off GOTOOLCHAIN=local
cd "$D" && go test -mod=mod -json -vet=off -count=1 -timeout 25m ./... 2>&1 | python3 -c '
import sys, json
p=f=0; failed=[]
for l in sys.stdin:
    try: e=json.loads(l)
    except Exception: continue
    if e.get("Test") and "/" not in e["Test"]:
        if e.get("Action")=="pass": p+=1
        elif e.get("Action")=="fail": f+=1; failed.append(e["Test"])
print("SUITE pass=%d fail=%d %s" % (p,f,failed))
sys.exit(0 if f==0 and p>=64 else 1)
'
