#!/bin/bash
# seed_detect.sh <dir-with-patch.diff> <property> [tier] : runs a property's check against a scratch copy of
# /repo HEAD with the seeded change applied (evidence/replays go to a scratch output directory).
D="$1"; P="$2"; T="${3:-quick}"
C=$(mktemp -d /tmp/seedsrc.XXXXXX); O=$(mktemp -d /tmp/seedout.XXXXXX)
trap 'rm -rf "$C" "$O"' EXIT
git -C /repo archive HEAD | tar -x -C "$C" || exit 2
( cd "$C" && patch -p1 -s --no-backup-if-mismatch < "$D/patch.diff" ) || { echo "DETECT $D $P applies=no"; exit 0; }
out=$(MOSS_SRC="$C" VERIF_OUT="$O" bash /verif/scripts/check.sh "$P" "$T" 2>"$O/err.log")
rc=$?
nv=$(echo "$out" | grep -c '^VIOLATION')
first=$(grep -m1 -A1 "cfg=\|^  " "$O/err.log" | head -2 | tr '\n' ' ' | cut -c1-260)
echo "DETECT $D $P rc=$rc violations=$nv :: $first"
