#!/usr/bin/env python3
"""reseed.py <name> [check...] : re-runs checks (quick tier) against a change stored under /verif/seeded/<name>/
(the property's own check first, then the named ones, default: the checks that were run before) and rewrites its
meta.json; the confirmation text recorded earlier is kept.  `--confirm` re-runs the confirmation as well."""
import json, subprocess, sys
args = [a for a in sys.argv[1:] if not a.startswith('--')]
name, checks = args[0], args[1:]
src = f'/verif/seeded/{name}'
m = json.load(open(f'{src}/meta.json'))
prop = m['property']
if not checks:
    checks = [c['check'] for c in m.get('checks_run', [])]
allchecks = [prop] + [c for c in checks if c != prop]
extra = [] if '--confirm' in sys.argv else ['--confirm-text=' + m['confirmed_here']]
r = subprocess.run(['python3', '/verif/scripts/seed_run.py', src, name] + allchecks + extra, capture_output=True, text=True)
print(r.stdout[-800:], r.stderr[-300:])
