package moss

// This file is added by /verif to its scratch copies of moss (never to /repo).
// It only READS private state: canonical state keys for explicit-state search,
// section heights, reference counters.  It adds nothing to moss code paths.

import (
	"fmt"
	"sort"
	"strings"
)

type verifOp struct {
	op   uint64
	k, v string
}

func verifSeg(sb *strings.Builder, s Segment) {
	sg, ok := s.(*segment)
	if !ok {
		sb.WriteString("?")
		return
	}
	ops := make([]verifOp, 0, sg.Len())
	for i := 0; i < sg.Len(); i++ {
		op, k, v := sg.getOperationKeyVal(i)
		ops = append(ops, verifOp{op >> 56, string(k), string(v)})
	}
	sort.SliceStable(ops, func(i, j int) bool { return ops[i].k < ops[j].k })
	sb.WriteString("<")
	if verifUnsorted(sg) {
		sb.WriteString("u!")
	}
	for _, o := range ops {
		if len(o.v) > 24 {
			fmt.Fprintf(sb, "%x:%q=#%d:%x,", o.op, o.k, len(o.v), verifHash(o.v))
		} else {
			fmt.Fprintf(sb, "%x:%q=%q,", o.op, o.k, o.v)
		}
	}
	sb.WriteString(">")
}

func verifHash(s string) uint64 {
	h := uint64(14695981039346656037)
	for i := 0; i < len(s); i++ {
		h ^= uint64(s[i])
		h *= 1099511628211
	}
	return h
}

func verifStack(sb *strings.Builder, ss *segmentStack, ren map[uint64]int, withRefs bool) {
	if ss == nil {
		sb.WriteString("nil")
		return
	}
	if _, ok := ren[ss.incarNum]; !ok {
		ren[ss.incarNum] = len(ren)
	}
	fmt.Fprintf(sb, "i%d[", ren[ss.incarNum])
	for _, s := range ss.a {
		verifSeg(sb, s)
	}
	sb.WriteString("]")
	if withRefs {
		fmt.Fprintf(sb, "r%d", ss.refs)
	}
	if ss.lowerLevelSnapshot != nil {
		sb.WriteString("+ll")
		if withRefs {
			fmt.Fprintf(sb, "r%d", ss.lowerLevelSnapshot.refCount)
		}
	}
	var names []string
	for n := range ss.childSegStacks {
		names = append(names, n)
	}
	sort.Strings(names)
	for _, n := range names {
		fmt.Fprintf(sb, "{%s:", n)
		verifStack(sb, ss.childSegStacks[n], ren, withRefs)
		sb.WriteString("}")
	}
}

func verifColl(sb *strings.Builder, m *collection, ren map[uint64]int) {
	if _, ok := ren[m.incarNum]; !ok {
		ren[m.incarNum] = len(ren)
	}
	fmt.Fprintf(sb, "c%d", ren[m.incarNum])
	var names []string
	for n := range m.childCollections {
		names = append(names, n)
	}
	sort.Strings(names)
	for _, n := range names {
		fmt.Fprintf(sb, "(%s:", n)
		verifColl(sb, m.childCollections[n], ren)
		sb.WriteString(")")
	}
}

// VerifKey returns a canonical rendering of the collection's private section state.
// Incarnation numbers are renamed in order of first appearance; the distance of
// highestIncarNum to the largest number in use is irrelevant to future behaviour
// except through equality tests, which the renaming preserves.
func VerifKey(c Collection, withRefs bool) string {
	m := c.(*collection)
	var sb strings.Builder
	ren := map[uint64]int{0: 0}
	sb.WriteString("K=")
	verifColl(&sb, m, ren)
	sb.WriteString(" T=")
	verifStack(&sb, m.stackDirtyTop, ren, withRefs)
	sb.WriteString(" M=")
	verifStack(&sb, m.stackDirtyMid, ren, withRefs)
	sb.WriteString(" B=")
	verifStack(&sb, m.stackDirtyBase, ren, withRefs)
	sb.WriteString(" C=")
	verifStack(&sb, m.stackClean, ren, withRefs)
	fmt.Fprintf(&sb, " cached=%v wi=%v wo=%v ll=%v", m.latestSnapshot != nil,
		m.waitDirtyIncomingCh != nil, m.waitDirtyOutgoingCh != nil, m.lowerLevelSnapshot != nil)
	if withRefs && m.lowerLevelSnapshot != nil {
		fmt.Fprintf(&sb, "r%d", m.lowerLevelSnapshot.refCount)
	}
	if ls, ok := m.latestSnapshot.(*segmentStack); ok && withRefs {
		fmt.Fprintf(&sb, " lsr%d", ls.refs)
	}
	return sb.String()
}

func verifLen(s *segmentStack) int {
	if s == nil {
		return 0
	}
	return len(s.a)
}

// VerifHeights returns the heights of top, mid, base, clean.
func VerifHeights(c Collection) [4]int {
	m := c.(*collection)
	return [4]int{verifLen(m.stackDirtyTop), verifLen(m.stackDirtyMid), verifLen(m.stackDirtyBase), verifLen(m.stackClean)}
}

func verifStackEmpty(s *segmentStack) bool {
	if s == nil {
		return true
	}
	return s.isEmpty()
}

// VerifDirtyEmpty reports whether top, mid and base (including all child stacks) hold no segment.
func VerifDirtyEmpty(c Collection) bool {
	m := c.(*collection)
	return verifStackEmpty(m.stackDirtyTop) && verifStackEmpty(m.stackDirtyMid) && verifStackEmpty(m.stackDirtyBase)
}

// VerifDirtyNil reports whether top, mid and base are nil or have neither segments nor child stacks.
func VerifDirtyNil(c Collection) bool {
	m := c.(*collection)
	f := func(s *segmentStack) bool { return s == nil || (len(s.a) == 0 && len(s.childSegStacks) == 0) }
	return f(m.stackDirtyTop) && f(m.stackDirtyMid) && f(m.stackDirtyBase)
}

func verifFooter(sb *strings.Builder, f *Footer, withRefs bool) {
	if f == nil {
		sb.WriteString("nil")
		return
	}
	fmt.Fprintf(sb, "F@%d<%d[", f.filePos, f.PrevFooterOffset)
	for _, sl := range f.SegmentLocs {
		fmt.Fprintf(sb, "%d+%d/%d+%d;", sl.KvsOffset, sl.KvsBytes, sl.BufOffset, sl.BufBytes)
		if withRefs && sl.mref != nil {
			fmt.Fprintf(sb, "m%d", sl.mref.refs)
		}
	}
	sb.WriteString("]")
	if withRefs {
		fmt.Fprintf(sb, "r%d", f.refs)
	}
	var names []string
	for n := range f.ChildFooters {
		names = append(names, n)
	}
	sort.Strings(names)
	for _, n := range names {
		fmt.Fprintf(sb, "{%s:", n)
		verifFooter(sb, f.ChildFooters[n], withRefs)
		sb.WriteString("}")
	}
}

// VerifStoreKey renders the private state of a store: current footer (segment
// locations recursively), file sequence, file reference table.
func VerifStoreKey(s *Store, withRefs bool) string {
	var sb strings.Builder
	fmt.Fprintf(&sb, "seq=%d refs=%d ", s.nextFNameSeq, s.refs)
	if s.footer != nil {
		sb.WriteString(s.footer.fileName + ":")
	}
	verifFooter(&sb, s.footer, withRefs)
	var names []string
	for n := range s.fileRefMap {
		names = append(names, n)
	}
	sort.Strings(names)
	for _, n := range names {
		fmt.Fprintf(&sb, " %s", n)
		if withRefs {
			fmt.Fprintf(&sb, "=r%d", s.fileRefMap[n].refs)
		}
	}
	return sb.String()
}

// VerifNumSegments returns the number of persisted segments of the top-level footer and, recursively, the maximum over all child footers.
func VerifNumSegments(s *Store) (top int, maxAny int) {
	var walk func(f *Footer) int
	walk = func(f *Footer) int {
		if f == nil {
			return 0
		}
		n := len(f.SegmentLocs)
		for _, c := range f.ChildFooters {
			if k := walk(c); k > n {
				n = k
			}
		}
		return n
	}
	if s.footer == nil {
		return 0, 0
	}
	return len(s.footer.SegmentLocs), walk(s.footer)
}

// VerifTopLen returns len(stackDirtyTop.a) without taking the collection lock.
func VerifTopLen(c Collection) int {
	return verifLen(c.(*collection).stackDirtyTop)
}

// VerifSegmentIndexInfo describes the key index of persisted segment i of the store footer ("" when none).
func VerifSegmentIndexInfo(s *Store) []string {
	var out []string
	if s.footer == nil || s.footer.ss == nil {
		return out
	}
	for _, sg := range s.footer.ss.a {
		a, ok := sg.(*segment)
		if !ok || a.index == nil {
			out = append(out, "")
			continue
		}
		out = append(out, fmt.Sprintf("hop=%d keys=%d/%d bytes=%d", a.index.hop, a.index.numKeys, a.index.numIndexableKeys, a.index.numKeyBytes))
	}
	return out
}

// VerifWrapLLU wraps the collection's LowerLevelUpdate callback (harness gate around the real update).
func VerifWrapLLU(c Collection, wrap func(LowerLevelUpdate) LowerLevelUpdate) {
	m := c.(*collection)
	m.options.LowerLevelUpdate = wrap(m.options.LowerLevelUpdate)
}

// VerifIndexedSegment builds an in-memory segment from the given keys (values "v"+key), sorts it and
// builds its key index with the given quota / minimum key bytes exactly as loading a persisted segment does.
type VerifIndexedSegment struct {
	seg *segment
}

func NewVerifIndexedSegment(keys []string, quota, minKeyBytes int) *VerifIndexedSegment {
	s, _ := newSegment(len(keys), 64)
	for _, k := range keys {
		s.Set([]byte(k), []byte("v"+k))
	}
	sort.Sort(s)
	if quota > 0 {
		s.buildIndex(quota, minKeyBytes)
	}
	return &VerifIndexedSegment{s}
}

// HasIndex reports whether an index was built, and its hop / number of indexed keys.
func (v *VerifIndexedSegment) HasIndex() (bool, int, int) {
	if v.seg.index == nil {
		return false, 0, 0
	}
	return true, v.seg.index.hop, v.seg.index.numKeys
}

// FindKeyPos is segment.findKeyPos (point lookup).
func (v *VerifIndexedSegment) FindKeyPos(key string) (int, error) { return v.seg.findKeyPos([]byte(key)) }

// FindStartPos is segment.findStartKeyInclusivePos (range start / range end).
func (v *VerifIndexedSegment) FindStartPos(key string) int {
	return v.seg.findStartKeyInclusivePos([]byte(key))
}

// VerifSnapshotKey renders a snapshot that is a segmentStack (e.g. the `higher` argument of LowerLevelUpdate).
func VerifSnapshotKey(s Snapshot) string {
	ss, ok := s.(*segmentStack)
	if !ok {
		return fmt.Sprintf("%T", s)
	}
	var sb strings.Builder
	verifStack(&sb, ss, map[uint64]int{0: 0}, false)
	return sb.String()
}
