package main

import (
	"fmt"
	"os"
	"reflect"
	"sort"
	"strings"

	"github.com/couchbase/moss"
)

// g1Groups lists the G1 searches that together decide a property.
var g1Groups = map[string][]string{}

func mapsEqual(a, b map[string]string) bool { return reflect.DeepEqual(a, b) }

func fmtMap(m map[string]string) string {
	ks := make([]string, 0, len(m))
	for k := range m {
		ks = append(ks, k)
	}
	sort.Strings(ks)
	var sb strings.Builder
	sb.WriteString("{")
	for _, k := range ks {
		fmt.Fprintf(&sb, "%q:%q ", k, m[k])
	}
	sb.WriteString("}")
	return sb.String()
}

// ---------------------------------------------------------------- C08 / C10

var c08Alpha = []*BatchSpec{
	{Ops: ops("S:a")},
	{Ops: ops("D:a")},
	{Ops: ops("M:a")},
	{Ops: ops("M:a", "S:b")},
	{Ops: ops("S:a", "M:b")},
	{Ops: ops("E:a", "M:")},
}

// operands inside a child collection / operands at the top level next to a child
var c08ChildAlpha = []*BatchSpec{
	{Kids: map[string]*BatchSpec{"A": {Ops: ops("S:a")}}},
	{Kids: map[string]*BatchSpec{"A": {Ops: ops("M:a")}}},
	{Kids: map[string]*BatchSpec{"A": {Ops: ops("D:a")}}},
	{Ops: ops("M:a"), Kids: map[string]*BatchSpec{"A": {Ops: ops("M:a")}}},
	{Ops: ops("S:a")},
}

func withProp(vs []Violation, prop string) []Violation {
	for i := range vs {
		vs[i].Prop = prop
	}
	return vs
}

// readPathsOracle (C10): Collection.Get, Snapshot.Get and iteration agree with each other (and the model)
// for every probe key, with and without NoCopyValue.
func (w *World) readPathsOracle(prop string) []Violation {
	if w.closedColl || w.coll == nil || moss.VerifCollLocked(w.coll) {
		return nil
	}
	ss, err := w.coll.Snapshot()
	if err != nil {
		return []Violation{{Prop: prop, Sig: "snapshot-error|collection|any", Msg: err.Error()}}
	}
	defer ss.Close()
	iterKV := map[string]string{}
	if it, err := ss.StartIterator(nil, nil, moss.IteratorOptions{}); err == nil && it != nil {
		kv, _ := iterAll(it)
		it.Close()
		for _, e := range kv {
			iterKV[e[0]] = e[1]
		}
	}
	m := w.model()
	for _, k := range w.probes {
		var res []string
		for _, noCopy := range []bool{false, true} {
			ro := moss.ReadOptions{NoCopyValue: noCopy}
			cv, cerr := w.coll.Get([]byte(k), ro)
			sv, serr := ss.Get([]byte(k), ro)
			res = append(res, fmt.Sprintf("coll(nocopy=%v)=%s/%v snap(nocopy=%v)=%s/%v", noCopy, fmtVal(cv), cerr, noCopy, fmtVal(sv), serr))
			if cerr != nil || serr != nil {
				return []Violation{{Prop: prop, Sig: "get-error|read-paths|any", Msg: fmt.Sprintf("Get(%q) returned an error: %v", k, res)}}
			}
			if fmtVal(cv) != fmtVal(sv) {
				return []Violation{{Prop: prop, Sig: "collection-get-differs-from-snapshot-get|read-paths|" + w.trigger("collget"),
					Msg: fmt.Sprintf("Get(%q): Collection.Get=%s but Snapshot.Get=%s (NoCopyValue=%v); model=%s; sections=%v", k, fmtVal(cv), fmtVal(sv), noCopy, modelVal(m, k), w.Heights())}}
			}
			iv, inIter := iterKV[k]
			if (sv != nil) != inIter || (inIter && iv != string(sv)) {
				return []Violation{{Prop: prop, Sig: "snapshot-get-differs-from-iteration|read-paths|any",
					Msg: fmt.Sprintf("Get(%q): Snapshot.Get=%s but iteration has (present=%v value=%q); model=%s", k, fmtVal(sv), inIter, iv, modelVal(m, k))}}
			}
			_ = m // whether the agreed value equals the reference is C01/C08's question, not C10's
		}
	}
	return nil
}

func modelVal(m *Node, k string) string {
	if v, ok := m.KV[k]; ok {
		return fmtVal([]byte(v))
	}
	return "nil"
}

// copiedValuesSurviveClose (C10 terminal phase): values returned by copying Gets stay intact after
// snapshot, collection and store are closed.  Destroys the world.
func (w *World) copiedValuesSurviveClose(prop string) []Violation {
	if w.closedColl || w.coll == nil || moss.VerifCollLocked(w.coll) || w.pending != nil {
		return nil
	}
	type kept struct {
		k    string
		v    []byte
		want string
	}
	var keep []kept
	ss, err := w.coll.Snapshot()
	if err != nil {
		return nil
	}
	for _, k := range w.probes {
		if v, err := ss.Get([]byte(k), moss.ReadOptions{}); err == nil && v != nil {
			keep = append(keep, kept{k, v, string(v)})
		}
		if v, err := w.coll.Get([]byte(k), moss.ReadOptions{}); err == nil && v != nil {
			keep = append(keep, kept{k, v, string(v)})
		}
	}
	ss.Close()
	w.closeAll()
	if w.infra != "" {
		return nil
	}
	for _, e := range keep {
		if string(e.v) != e.want { // a value aliasing unmapped memory faults here (SetPanicOnFault -> panic -> violation)
			return []Violation{{Prop: prop, Sig: "copied-value-changed-after-close|read-paths|any",
				Msg: fmt.Sprintf("value of %q returned by a copying Get changed after closing everything: %q -> %q", e.k, e.want, e.v)}}
		}
	}
	return nil
}

// ---------------------------------------------------------------- C13 (custom lower level)

// lowerLevelOracle checks the write-back protocol against the reference model.
func (w *World) lowerLevelOracle(prop string) []Violation {
	var out []Violation
	// (a) the lower level always equals the reference content after some prefix, and that prefix never shrinks
	j := -1
	for i := len(w.models) - 1; i >= 0; i-- {
		if mapsEqual(w.ll, w.models[i].KV) {
			j = i
			break
		}
	}
	if j < 0 {
		out = append(out, Violation{Prop: prop, Sig: "lower-level-not-a-prefix-state|lower-level|any",
			Msg: fmt.Sprintf("after %d successful updates the application's lower level holds %s which is not the reference content after any prefix of the %d executed batches (reference now %s)",
				len(w.llUpdates), fmtMap(w.ll), len(w.models)-1, fmtMap(w.model().KV))})
		return out
	}
	if w.closedColl || w.coll == nil || moss.VerifCollLocked(w.coll) {
		return out
	}
	// (b) lower level overlaid with the not yet persisted mutations equals the reference content
	ss, err := w.coll.Snapshot()
	if err != nil {
		return out
	}
	over, _, err := applyHigher(w.ll, ss)
	ss.Close()
	if err != nil {
		out = append(out, Violation{Prop: prop, Sig: "overlay-read-error|lower-level|any", Msg: err.Error()})
		return out
	}
	if !mapsEqual(over, w.model().KV) {
		out = append(out, Violation{Prop: prop, Sig: "overlay-mismatch|lower-level|any",
			Msg: fmt.Sprintf("lower level %s overlaid with the collection's unpersisted mutations gives %s, reference %s; sections=%v", fmtMap(w.ll), fmtMap(over), fmtMap(w.model().KV), w.Heights())})
	}
	// (d) drained: nothing dirty, nothing in the gate, no blocked writer => lower level == reference
	if moss.VerifDirtyEmpty(w.coll) && !w.inGate && w.pending == nil && !mapsEqual(w.ll, w.model().KV) {
		out = append(out, Violation{Prop: prop, Sig: "drained-but-lower-level-stale|lower-level|any",
			Msg: fmt.Sprintf("no dirty section holds anything and no update is in flight, yet the lower level is %s and the reference %s", fmtMap(w.ll), fmtMap(w.model().KV))})
	}
	// (c) after a failed update the same mutations are offered again (same keys or newer versions of them)
	for i := 0; i+1 < len(w.llUpdates); i++ {
		if w.llUpdates[i].OK {
			continue
		}
		next := map[string]bool{}
		for _, o := range w.llUpdates[i+1].Handed {
			next[o.Key] = true
		}
		for _, o := range w.llUpdates[i].Handed {
			if !next[o.Key] {
				out = append(out, Violation{Prop: prop, Sig: "failed-update-not-reoffered|lower-level|any",
					Msg: fmt.Sprintf("update #%d failed after being offered %v; the next update offered %v which lacks key %q", i, w.llUpdates[i].Handed, w.llUpdates[i+1].Handed, o.Key)})
				return out
			}
		}
	}
	return out
}

// ---------------------------------------------------------------- C20 (gauges)

func (w *World) gaugesOracle(prop string, converse bool) []Violation {
	if w.closedColl || w.coll == nil || moss.VerifCollLocked(w.coll) || w.pending != nil {
		return nil
	}
	st, err := w.coll.Stats()
	if err != nil {
		return nil
	}
	var out []Violation
	zero := st.CurDirtyOps == 0 && st.CurDirtyBytes == 0 && st.CurDirtySegments == 0
	if zero {
		exp := w.model().DumpT(w.probes)
		switch w.cfg.Backing {
		case "map":
			if !mapsEqual(w.ll, w.model().KV) {
				out = append(out, Violation{Prop: prop, Sig: "zero-gauges-but-lower-level-stale|map|any",
					Msg: fmt.Sprintf("CurDirtyOps/Bytes/Segments are all zero but the lower level holds %s, reference %s", fmtMap(w.ll), fmtMap(w.model().KV))})
			}
		case "store":
			ss, _ := w.store.Snapshot()
			if ss != nil {
				got := DumpSnapshot(ss, w.probes)
				ss.Close()
				if class, detail := DiffDumps(exp, got, "Store.Snapshot"); class != "" {
					sig := "zero-gauges-but-store-stale:" + class + "|store|any"
					if tr := w.gaugeTrigger(exp, got); tr != "any" {
						sig = "zero-gauges-but-store-stale|store|" + tr
						// the known finding K1 is about a state that the next merger / persister round repairs; when
						// the difference survives a full drain it is something else
						if !w.inGate {
							w.drain(4)
							if ss2, _ := w.store.Snapshot(); ss2 != nil && w.infra == "" {
								got2 := DumpSnapshot(ss2, w.probes)
								ss2.Close()
								if class2, detail2 := DiffDumps(exp, got2, "Store.Snapshot"); class2 != "" {
									sig = "zero-gauges-and-store-stale-after-drain:" + class2 + "|store|any"
									detail = "even after merger and persister have run until idle: " + detail2
									got = got2
								}
							}
						}
					}
					out = append(out, Violation{Prop: prop, Sig: sig,
						Msg: fmt.Sprintf("CurDirtyOps/Bytes/Segments are all zero but the store's own snapshot differs from the reference: %s\n  expected %s\n  observed %s\n  in gate=%v sections=%v", detail, exp, got, w.inGate, w.Heights())})
					return out
				}
			}
			if !w.inGate {
				if v := w.reopenCopyOracle(prop, exp, "zero-gauges"); v != nil {
					out = append(out, *v)
				}
			}
		}
	}
	if converse && !zero && len(out) == 0 {
		// with updates succeeding, a few alternations of merger and persister must bring the gauges to zero
		w.drain(4)
		if w.infra == "" && !moss.VerifCollLocked(w.coll) {
			st2, _ := w.coll.Stats()
			if !(st2.CurDirtyOps == 0 && st2.CurDirtyBytes == 0 && st2.CurDirtySegments == 0) {
				out = append(out, Violation{Prop: prop, Sig: "gauges-stay-nonzero|" + w.cfg.Backing + "|any",
					Msg: fmt.Sprintf("after 4 alternations of merger and persister with every update succeeding the gauges are still ops=%d bytes=%d segments=%d; sections=%v", st2.CurDirtyOps, st2.CurDirtyBytes, st2.CurDirtySegments, w.Heights())})
			}
		}
	}
	return out
}

// drain lets merger and persister alternate n times with every update succeeding.
func (w *World) drain(n int) {
	for i := 0; i < n; i++ {
		if w.s.Enabled(w.merger) {
			w.run(w.merger)
		}
		if w.inGate {
			w.gateMode, w.gateFlag = 1, true
		}
		if w.s.Enabled(w.persister) {
			w.run(w.persister)
		}
		if w.inGate {
			w.gateMode, w.gateFlag = 1, true
			w.run(w.persister)
		}
		w.settle()
	}
}

// opsCount is the number of key operations of a batch, recursively.
func opsCount(b *BatchSpec) int {
	n := len(b.Ops)
	for _, c := range b.Kids {
		n += opsCount(c)
	}
	return n
}

// structuralOnly reports whether `got` differs from the reference dump `ref` only in the existence or
// emptiness of child collections: a child the reference lacks (deleted), a child the reference has empty
// (created empty, or deleted and recreated) - with everything else equal.
func structuralOnly(ref, got *DumpT) bool {
	if len(got.Errs) > 0 || fmt.Sprint(ref.Iter) != fmt.Sprint(got.Iter) || fmt.Sprint(ref.Get) != fmt.Sprint(got.Get) {
		return false
	}
	for name, rc := range ref.Kids {
		if len(rc.Iter) == 0 && len(rc.Kids) == 0 {
			continue // empty in the reference: whatever the lower level has (nothing yet, or the deleted incarnation)
		}
		gc, ok := got.Kids[name]
		if !ok || !structuralOnly(rc, gc) {
			return false
		}
	}
	return true // children that only `got` has were deleted in the reference
}

// gaugeTrigger narrows the signature of the open C20 finding K1: "only-child-structure" when the lower level
// differs from the reference only by child collections that were created empty or deleted - changes that put
// no operation into any dirty section, so the gauges have nothing to count.
func (w *World) gaugeTrigger(ref, got *DumpT) string {
	if structuralOnly(ref, got) {
		return "only-child-structure"
	}
	return "any"
}

// reopenCopyOracle opens a copy of the store directory taken right now and compares it with exp.
func (w *World) reopenCopyOracle(prop string, exp *DumpT, why string) *Violation {
	if w.store == nil || w.closedStore {
		return nil
	}
	cp, err := copyDir(w.dir)
	defer os.RemoveAll(cp)
	if err != nil {
		w.infra = "copyDir: " + err.Error()
		return nil
	}
	got, oerr := w.openDump(cp)
	if oerr != "" {
		return &Violation{Prop: prop, Sig: why + "-reopen-fails|store|any", Msg: "opening a copy of the directory taken at this moment fails: " + oerr}
	}
	if class, detail := DiffDumps(exp, got, "reopened copy"); class != "" {
		return &Violation{Prop: prop, Sig: why + "-reopen-differs:" + class + "|store|any",
			Msg: fmt.Sprintf("a copy of the directory taken at this moment reopens to different content: %s\n  expected %s\n  observed %s", detail, exp, got)}
	}
	return nil
}

// openDump opens dir as a store collection inside scheduled threads, dumps it and closes it again.
func (w *World) openDump(dir string) (*DumpT, string) {
	var d *DumpT
	errs := ""
	so, po := w.storeOptions()
	so.CollectionOptions.OnError = nil
	po.CompactionConcern = moss.CompactionDisable
	if w.vfs != nil {
		// the copy is opened outside the history under test: an injected fault that is still pending must not hit it
		was := w.vfs.Suspended
		w.vfs.Suspended = true
		defer func() { w.vfs.Suspended = was }()
	}
	t := w.s.Spawn("open-copy", func() {
		st, c, err := moss.OpenStoreCollection(dir, so, po)
		if err != nil {
			errs = err.Error()
			return
		}
		ss, err := c.Snapshot()
		if err != nil {
			errs = err.Error()
		} else {
			d = DumpSnapshot(ss, w.probes)
			ss.Close()
		}
		c.Close()
		st.Close()
	})
	saved := w.mains
	w.mains = map[int]bool{}
	for k, v := range saved {
		w.mains[k] = v
	}
	w.mains[t.ID] = true
	// run the opener together with the threads it spawns (its own merger/persister), nothing else
	first := t.ID
	for n := 0; n < 100000; n++ {
		prog := false
		for i := first; i < w.s.NumThreads(); i++ {
			th := w.s.Thread(i)
			if saved[th.ID] && th.ID != t.ID {
				continue
			}
			for w.s.Enabled(th) {
				w.s.Step(th, 0)
				prog = true
			}
		}
		if !prog {
			break
		}
	}
	w.mains = saved
	if !t.Done {
		return nil, "open/close of the copy did not return: " + w.describeThreads()
	}
	if t.Panic != nil {
		return nil, fmt.Sprintf("panic while opening the copy: %v", t.Panic)
	}
	if errs != "" {
		return nil, errs
	}
	return d, ""
}

// ---------------------------------------------------------------- spec registration

func kid(name string, b *BatchSpec) map[string]*BatchSpec { return map[string]*BatchSpec{name: b} }

var c11Alpha = []*BatchSpec{
	{Kids: kid("A", &BatchSpec{Ops: ops("S:a")})},
	{Kids: map[string]*BatchSpec{"A": {Ops: ops("S:b")}, "B": {Ops: ops("S:a")}}},
	{Kids: kid("A", &BatchSpec{Kids: kid("X", &BatchSpec{Ops: ops("S:a")})})},
	{DelKids: []string{"A"}},
	{Ops: ops("S:a"), DelKids: []string{"A"}},
	{Kids: kid("A", &BatchSpec{})},
	{Kids: kid("A", &BatchSpec{Ops: ops("D:a")})},
	{Ops: ops("S:a")},
}

var c04Alpha = []*BatchSpec{
	{Ops: ops("S:a")},
	{Ops: ops("D:a")},
	{Ops: ops("E:a", "S:b")},
	{Ops: ops("S:")},
	{Kids: kid("A", &BatchSpec{Ops: ops("S:a")})},
	{DelKids: []string{"A"}},
	{Kids: kid("A", &BatchSpec{Ops: ops("S:b")})}, // a different key, so that a recreated A is distinguishable from its predecessor
	// keys of very uneven length: with the key-index options of the last configuration the in-memory index of the
	// persisted segment ends early (its data area is sized from the average key length)
	{Ops: ops("S:a", "S:b", "S:c", "S:d", "S:"+strings.Repeat("e", 40), "S:f", "S:g", "S:h")},
}

func storeConfigs(tier string, mergeOp bool) []Config {
	if tier == "thorough" {
		var cfgs []Config
		for cc := 0; cc <= 2; cc++ {
			for _, cp := range []bool{false, true} {
				for _, mm := range []float64{0.01, 100} {
					cfgs = append(cfgs, Config{Backing: "store", MinMergePct: mm, Concern: cc, CachePersisted: cp, MergeOp: mergeOp})
				}
			}
		}
		cfgs = append(cfgs, Config{Backing: "store", MinMergePct: 100, Concern: 1, NoSync: true, KeysIndexMax: 64, KeysIndexMin: 1, MergeOp: mergeOp})
		cfgs = append(cfgs, Config{Backing: "store", MinMergePct: 0.01, Concern: 2, NoSync: true, DeferredSort: true, MaxSegs: 3, Mult: 9, MergeOp: mergeOp})
		return cfgs
	}
	return []Config{
		{Backing: "store", MinMergePct: 100, Concern: 0, MergeOp: mergeOp},
		{Backing: "store", MinMergePct: 0.01, Concern: 1, CachePersisted: true, MergeOp: mergeOp},
		{Backing: "store", MinMergePct: 100, Concern: 2, MergeOp: mergeOp},
		{Backing: "store", MinMergePct: 0.01, Concern: 1, NoSync: true, KeysIndexMax: 64, KeysIndexMin: 1, DeferredSort: true, MergeOp: mergeOp},
	}
}

func init() {
	// C02: a snapshot is frozen
	g1Specs["C02"] = func(tier string) *G1Spec {
		sp := &G1Spec{Prop: "C02", Alpha: []*BatchSpec{
			{Ops: ops("S:a")}, {Ops: ops("D:a")}, {Ops: ops("S:a", "D:b")}, {Ops: ops("S:b"), Kids: kid("A", &BatchSpec{Ops: ops("S:a")})}, {DelKids: []string{"A"}}},
			Configs: []Config{
				{Backing: "none", MinMergePct: 0.01},
				{Backing: "map", MinMergePct: 100, CachePersisted: true},
				{Backing: "store", MinMergePct: 0.01, Concern: 2},
				{Backing: "store", MinMergePct: 100, Concern: 1, CachePersisted: true},
			},
			Steps: []string{"M", "MA", "Pb", "Pe", "S+", "CS+", "I+", "IX", "SS+", "H-", "CC", "CS", "R"}, Devs: []string{"m1", "p1", "m2", "p2"},
			// roots: two persisted rounds and a batch in memory; a persisted child collection and a reopen; a persisted
			// round followed by a round without data (a merger ping on an idle collection)
			Roots: [][]string{{"B0", "M", "Pb", "Pe", "B3", "M", "Pb", "Pe", "B0"}, {"B3", "M", "Pb", "Pe", "R"}, {"B3", "M", "Pb", "Pe", "MA", "Pb", "Pe"}},
			MaxB:  3, MaxD: 8, MaxK: 1, MaxH: 2, MaxR: 1, Deadline: tierDeadline(tier),
			Note: "oracle: every open snapshot / child snapshot / iterator is re-read after every later step and must show what it showed when taken"}
		if tier == "thorough" {
			sp.MaxB, sp.MaxD, sp.MaxK, sp.MaxH = 4, 11, 2, 3
			sp.Configs = append(sp.Configs, Config{Backing: "store", MinMergePct: 0.01, Concern: 2, CachePersisted: true, DeferredSort: true},
				Config{Backing: "map", MinMergePct: 0.01, DeferredSort: true}, Config{Backing: "store", MinMergePct: 100, Concern: 0})
		}
		sp.Check = func(w *World, path []string) []Violation {
			return append(withProp(w.viols, "C02"), w.handlesOracle("C02")...)
		}
		return sp
	}
	engines["C02"] = checkG1

	// C04: clean shutdown and reopen
	g1Specs["C04"] = func(tier string) *G1Spec {
		sp := &G1Spec{Prop: "C04", Alpha: c04Alpha, Configs: storeConfigs(tier, false),
			Steps: []string{"M", "MA", "Pb", "Pe", "R"}, Devs: []string{"m1", "p1", "m2", "p2"},
			Roots: [][]string{{"B4", "M", "Pb", "Pe", "R"}, {"B0", "M", "Pb", "Pe", "B2", "M", "Pb", "Pe"}},
			MaxB:  3, MaxD: 9, MaxK: 1, MaxR: 1, Deadline: tierDeadline(tier),
			Note: "oracle after each close+reopen: reopened content == what the store exposed right before closing == reference content after some prefix p of the batches; p = n when nothing was dirty at close time"}
		if tier == "thorough" {
			sp.MaxB, sp.MaxD, sp.MaxR = 4, 12, 2
		}
		sp.Check = func(w *World, path []string) []Violation {
			// the reopen oracle runs inside every R step; the snapshot comparison in every state keeps the
			// reference model honest between reopens
			out := append(withProp(w.viols, "C04"), w.snapshotOracle("C04")...)
			if len(out) == 0 {
				out = w.drainedStoreOracle("C04")
			}
			return out
		}
		return sp
	}
	engines["C04"] = checkG1

	// C08: merge operands fold in order, exactly once
	g1Specs["C08"] = func(tier string) *G1Spec {
		sp := &G1Spec{Prop: "C08", Alpha: c08Alpha, Configs: baseConfigs(tier, true),
			Steps: []string{"M", "MA", "Pb", "Pe", "R"}, Devs: []string{"m1", "p1", "m2", "p2"},
			// roots: one completed persistence round; the very first round still in flight
			Roots: [][]string{{"B0", "M", "Pb", "Pe"}, {"B0", "M", "Pb"}},
			MaxB:  3, MaxD: 9, MaxK: 1, MaxR: 1, Deadline: tierDeadline(tier),
			Note: "order-sensitive operator existing+\":\"+operand (nil existing rendered ^); oracle: snapshot dump == model fold at every state; map backing: lower-level content is a prefix state", Share: 0.47}
		if tier == "thorough" {
			sp.MaxB, sp.MaxD, sp.MaxK, sp.MaxR = 4, 12, 2, 1
		}
		sp.Check = func(w *World, path []string) []Violation {
			out := append(withProp(w.viols, "C08"), w.snapshotOracle("C08")...)
			if w.cfg.Backing == "map" && len(out) == 0 {
				out = append(out, w.lowerLevelOracle("C08")...)
			}
			return out
		}
		return sp
	}
	g1Specs["C08child"] = func(tier string) *G1Spec {
		sp := g1Specs["C08"](tier)
		sp.Alpha = c08ChildAlpha
		sp.Configs = []Config{
			{Backing: "none", MinMergePct: 100, MergeOp: true},
			{Backing: "store", MinMergePct: 0.01, Concern: 0, MergeOp: true},
			{Backing: "store", MinMergePct: 100, Concern: 2, CachePersisted: true, MergeOp: true},
		}
		sp.MaxD--
		sp.Note += "; child variant: operands inside child collection A and next to it"
		return sp
	}
	// a narrow alphabet (one key: set it, add an operand) explored deeper, on lower levels that start without any
	// snapshot: overlapping first rounds need eight steps from "first round in flight"
	g1Specs["C08deep"] = func(tier string) *G1Spec {
		sp := g1Specs["C08"](tier)
		sp.Alpha = []*BatchSpec{{Ops: ops("S:a")}, {Ops: ops("M:a")}}
		sp.Configs = []Config{
			{Backing: "map", MinMergePct: 100, NoLLInit: true, MergeOp: true},
			{Backing: "map", MinMergePct: 0.01, NoLLInit: true, CachePersisted: true, MergeOp: true},
		}
		sp.Steps = []string{"M", "Pb", "Pe"}
		sp.Devs = []string{"m2"}
		sp.Roots = [][]string{{"B0", "M", "Pb"}}
		sp.MaxB, sp.MaxD, sp.MaxK, sp.MaxR = 4, 10, 1, 0
		sp.Share = 0.06
		sp.Note += "; deep variant: two-batch alphabet on one key, map lower level without LowerLevelInit, to depth 10"
		return sp
	}
	g1Groups["C08"] = []string{"C08", "C08child", "C08deep"}
	engines["C08"] = checkG1

	// C10: all read paths agree
	g1Specs["C10"] = func(tier string) *G1Spec {
		sp := g1Specs["C08"](tier)
		sp.Prop = "C10"
		sp.Alpha = []*BatchSpec{
			{Ops: ops("S:a")}, {Ops: ops("D:a")}, {Ops: ops("M:a")}, {Ops: ops("M:a==")},
			{Ops: ops("S:a", "M:b")}, {Ops: ops("E:a", "M:")},
		}
		sp.Note = "oracle at every state: Collection.Get == Snapshot.Get == iteration entry == model for every probe key, NoCopyValue off/on; terminal phase: copied values intact after closing everything"
		sp.Check = func(w *World, path []string) []Violation {
			out := append(withProp(w.viols, "C10"), w.readPathsOracle("C10")...)
			if len(out) == 0 {
				out = append(out, w.copiedValuesSurviveClose("C10")...)
			}
			return out
		}
		return sp
	}
	engines["C10"] = checkG1

	// C11: child collections
	g1Specs["C11"] = func(tier string) *G1Spec {
		cfgs := []Config{
			{Backing: "none", MinMergePct: 0.01},
			{Backing: "store", MinMergePct: 100, Concern: 0},
			{Backing: "store", MinMergePct: 0.01, Concern: 1, CachePersisted: true},
			{Backing: "store", MinMergePct: 100, Concern: 2},
		}
		if tier == "thorough" {
			cfgs = append(storeConfigs(tier, false), Config{Backing: "none", MinMergePct: 0.01}, Config{Backing: "none", MinMergePct: 100, DeferredSort: true})
		}
		alpha := c11Alpha
		if tier != "thorough" {
			// quick: six of the eight shapes (without "delete A + top-level Set" and "delete one key inside A")
			alpha = []*BatchSpec{c11Alpha[0], c11Alpha[1], c11Alpha[2], c11Alpha[3], c11Alpha[5], c11Alpha[7]}
		}
		sp := &G1Spec{Prop: "C11", Alpha: alpha, Configs: cfgs,
			Steps: []string{"M", "MA", "Pb", "Pe", "R"}, Devs: []string{"m1", "p1", "m2", "p2"},
			Roots: [][]string{{"B0", "M", "Pb", "Pe", "R"}},
			MaxB:  3, MaxD: 9, MaxK: 1, MaxR: 1, Deadline: tierDeadline(tier),
			Note: "tree alphabet: children A, B and A/X; oracle: recursive dump (names at every level + contents) == reference tree at every state and after every reopen"}
		if tier == "thorough" {
			sp.MaxB, sp.MaxD, sp.MaxR = 4, 12, 2
		}
		sp.Check = func(w *World, path []string) []Violation {
			out := append(withProp(w.viols, "C11"), w.snapshotOracle("C11")...)
			if len(out) == 0 {
				out = w.drainedStoreOracle("C11")
			}
			return out
		}
		return sp
	}
	engines["C11"] = checkG1

	// C13: write-back to an application lower level
	g1Specs["C13"] = func(tier string) *G1Spec {
		cfgs := []Config{
			{Backing: "map", MinMergePct: 0.01, MergeOp: true},
			{Backing: "map", MinMergePct: 100, CachePersisted: true, MergeOp: true, OpYield: true},
			{Backing: "map", MinMergePct: 100, MaxDirtyOps: 1, MergeOp: true},
			{Backing: "map", MinMergePct: 0.01, CachePersisted: true, MaxDirtyOps: 1, DeferredSort: true, MergeOp: true},
			{Backing: "map", MinMergePct: 0.01, NoLLInit: true, MergeOp: true},
		}
		// plus a batch with merge operands on two keys; with OpYield the merger can be stopped between the two
		alpha := append(append([]*BatchSpec{}, c08Alpha...), &BatchSpec{Ops: ops("M:a", "M:b")})
		sp := &G1Spec{Prop: "C13", Alpha: alpha, Configs: cfgs,
			Steps: []string{"M", "MA", "Pb", "Pe", "Pf"}, Devs: []string{"m1", "p1", "m2", "p2", "m3"},
			// roots: one completed round; both keys persisted and a round with an unrelated... key in flight
			Roots: [][]string{{"B0", "M", "Pb", "Pe"}, {"B4", "M", "Pb", "Pe", "B0", "M", "Pb"}},
			MaxB:  3, MaxD: 9, MaxK: 1, Deadline: tierDeadline(tier),
			Note: "map lower level applying each `higher` by the documented protocol; Pe/Pf = update succeeds / fails; oracles: lower level is a non-shrinking prefix state, overlay == model, failed update re-offered, drained => equal", Share: 0.88}
		if tier == "thorough" {
			sp.MaxB, sp.MaxD, sp.MaxK = 4, 12, 2
		}
		sp.Check = func(w *World, path []string) []Violation {
			return append(withProp(w.viols, "C13"), w.lowerLevelOracle("C13")...)
		}
		return sp
	}
	g1Specs["C13deep"] = func(tier string) *G1Spec {
		sp := g1Specs["C13"](tier)
		sp.Alpha = []*BatchSpec{{Ops: ops("S:a")}, {Ops: ops("M:a")}, {Ops: ops("D:a")}}
		sp.Configs = []Config{
			{Backing: "map", MinMergePct: 100, MergeOp: true},
			{Backing: "map", MinMergePct: 0.01, CachePersisted: true, MergeOp: true},
			{Backing: "map", MinMergePct: 100, NoLLInit: true, CachePersisted: true, MergeOp: true},
		}
		sp.Steps = []string{"M", "Pb", "Pe", "Pf"}
		sp.Devs = []string{"m2", "p2"}
		sp.Roots = [][]string{{"B0", "M", "Pb"}}
		sp.MaxB, sp.MaxD, sp.MaxK = 4, 9, 1
		sp.Share = 0.12
		sp.Note += "; deep variant: three-batch alphabet on one key (set, operand, delete), to depth 9"
		return sp
	}
	g1Groups["C13"] = []string{"C13", "C13deep"}
	engines["C13"] = checkG1

	// C20: zero gauges => everything is in the lower level
	g1Specs["C20"] = func(tier string) *G1Spec {
		sp := g1Specs["C11"](tier)
		sp.Prop = "C20"
		sp.Alpha = []*BatchSpec{
			{Ops: ops("S:a")}, {Ops: ops("D:a")},
			{Kids: kid("A", &BatchSpec{Ops: ops("S:a")})},
			{Kids: kid("A", &BatchSpec{})},
			{DelKids: []string{"A"}},
			{Ops: ops("S:b"), Kids: kid("A", &BatchSpec{Ops: ops("D:a")})},
			// a batch that only touches a grandchild: child A itself gets no segment
			{Kids: kid("A", &BatchSpec{Kids: kid("X", &BatchSpec{Ops: ops("S:a")})})},
		}
		sp.Configs = []Config{
			{Backing: "store", MinMergePct: 100, Concern: 0},
			{Backing: "store", MinMergePct: 0.01, Concern: 1, CachePersisted: true},
			{Backing: "store", MinMergePct: 100, Concern: 2},
			{Backing: "map", MinMergePct: 0.01},
			{Backing: "map", MinMergePct: 100, CachePersisted: true},
		}
		sp.Steps = []string{"M", "MA", "Pb", "Pe"}
		sp.Roots = [][]string{{"B0", "M", "Pb", "Pe"}, {"B2", "M", "Pb", "Pe"}}
		sp.MaxR = 0
		sp.Note = "oracle at every state without a call in flight: all three dirty gauges zero => store snapshot (or map lower level) == reference and a reopened copy of the directory == reference; converse: <=4 merger/persister alternations make the gauges zero"
		sp.Check = func(w *World, path []string) []Violation {
			return append(withProp(w.viols, "C20"), w.gaugesOracle("C20", true)...)
		}
		return sp
	}
	engines["C20"] = checkG1
}
