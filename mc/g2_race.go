package main

import (
	"encoding/json"
	"fmt"
	"os"
	"regexp"
	"strings"
	"time"

	"github.com/couchbase/moss"
	vs "vsched"
)

// C17 - permitted concurrent use is free of data races (engine G2 with the Go race detector as the
// per-execution oracle).  The harness binary used here is built with -race and the vsrace variant of
// vsched: the scheduler's hand-off is invisible to the detector, and every modelled primitive forwards
// exactly the happens-before edges the Go memory model gives it.  Rules of this file: the controller
// (explore loop) never touches moss memory or harness variables shared with threads; everything a thread
// shares with another thread is created before the fork (vs.Go) or passed through a vs channel.

type raceOpts struct {
	Name           string
	DeferredSort   bool
	CachePersisted bool
	Concern        int
	Children       bool
	Store          bool
	MaxDirtyOps    uint64 // > 0: the merger's dirty-data throttle is active (it waits for the persister)
}

func raceOptionSets(tier string) []raceOpts {
	if tier == "thorough" {
		var out []raceOpts
		for _, ds := range []bool{false, true} {
			for _, cp := range []bool{false, true} {
				for _, cc := range []int{0, 2} {
					for _, ch := range []bool{false, true} {
						out = append(out, raceOpts{fmt.Sprintf("ds=%v cp=%v cc=%d children=%v store", ds, cp, cc, ch), ds, cp, cc, ch, true, 0})
					}
				}
			}
		}
		out = append(out, raceOpts{"in-memory ds=true", true, false, 0, false, false, 0})
		out = append(out, raceOpts{"ds=false cp=false cc=0 children=false store MaxDirtyOps=1", false, false, 0, false, true, 1})
		out = append(out, raceOpts{"ds=true cp=true cc=2 children=true store MaxDirtyOps=1", true, true, 2, true, true, 1})
		return out
	}
	// quick: covering pairs of the four options
	return []raceOpts{
		{"ds=false cp=false cc=0 children=false store", false, false, 0, false, true, 0},
		{"ds=true cp=true cc=2 children=false store", true, true, 2, false, true, 0},
		{"ds=true cp=false cc=0 children=true store", true, false, 0, true, true, 0},
		{"ds=false cp=true cc=2 children=true store", false, true, 2, true, true, 0},
		{"ds=true cp=false cc=2 children=false store", true, false, 2, false, true, 0},
		{"ds=false cp=true cc=0 children=false store", false, true, 0, false, true, 0},
		{"ds=false cp=false cc=0 children=false store MaxDirtyOps=1", false, false, 0, false, true, 1},
	}
}

// raceBuild registers the threads of one execution.  dir is created (and removed) by the controller.
func raceBuild(s *vs.Sched, o raceOpts, dir string) {
	s.Spawn("root", func() {
		co := moss.CollectionOptions{MaxPreMergerBatches: 1, DeferredSort: o.DeferredSort, CachePersisted: o.CachePersisted,
			MinMergePercentage: 100, MergerIdleRunTimeoutMS: -1, MaxDirtyOps: o.MaxDirtyOps}
		var coll moss.Collection
		var store *moss.Store
		var err error
		if o.Store {
			store, coll, err = moss.OpenStoreCollection(dir, moss.StoreOptions{CollectionOptions: co, CompactionLevelMaxSegments: 2, CompactionLevelMultiplier: 2},
				moss.StorePersistOptions{CompactionConcern: moss.CompactionConcern(o.Concern)})
		} else {
			co.LowerLevelUpdate = func(h moss.Snapshot) (moss.Snapshot, error) { return nil, nil }
			coll, err = moss.NewCollection(co)
			if err == nil {
				err = coll.Start()
			}
		}
		if err != nil {
			panic("race harness: open failed: " + err.Error())
		}
		done := vs.MakeChan[int](0)
		wdone := [3]*vs.Chan[int]{nil, vs.MakeChan[int](1), vs.MakeChan[int](1)}
		first := vs.MakeChan[int](2)
		for i := 1; i <= 2; i++ {
			i := i
			vs.Go(fmt.Sprintf("writer%d", i), func() {
				for j := 1; j <= 2; j++ {
					b, err := coll.NewBatch(8, 128)
					if err != nil {
						break
					}
					v := []byte(fmt.Sprint(j))
					// keys are inserted in descending order so that a deferred sort really moves entries
					b.Set([]byte(fmt.Sprintf("z%d", i)), v)
					b.Set([]byte(fmt.Sprintf("p%d", i)), v)
					b.Set([]byte(fmt.Sprintf("m%d", i)), v)
					if o.Children {
						cb, _ := b.NewChildCollectionBatch(fmt.Sprintf("K%d", i), moss.BatchOptions{TotalOps: 2, TotalKeyValBytes: 16})
						cb.Set([]byte("c"), v)
					}
					coll.ExecuteBatch(b, moss.WriteOptions{})
					b.Close()
					if i == 1 && j == 1 {
						first.Send(1)
					}
				}
				wdone[i].Send(i)
				done.Send(i)
			})
		}
		// late reader: takes its snapshot once writer 1 is through, reads it only after writer 2 is through -
		// by then the merger has sorted / merged the segments the snapshot still refers to
		vs.Go("latereader", func() {
			wdone[1].Recv()
			ss, err := coll.Snapshot()
			wdone[2].Recv()
			if err == nil {
				ss.Get([]byte("m1"), moss.ReadOptions{})
				ss.Get([]byte("p2"), moss.ReadOptions{})
				if it, err := ss.StartIterator([]byte("m"), nil, moss.IteratorOptions{}); err == nil && it != nil {
					it.Current()
					it.Next()
					it.Close()
				}
				ss.Close()
			}
			done.Send(5)
		})
		vs.Go("reader", func() {
			for k := 0; k < 2; k++ {
				if ss, err := coll.Snapshot(); err == nil {
					ss.Get([]byte("m1"), moss.ReadOptions{})
					if it, err := ss.StartIterator(nil, nil, moss.IteratorOptions{}); err == nil && it != nil {
						for n := 0; n < 16; n++ {
							if _, _, err := it.Current(); err != nil {
								break
							}
							if it.Next() != nil {
								break
							}
						}
						it.Close()
					}
					if o.Children {
						if cs, err := ss.ChildCollectionSnapshot("K1"); err == nil && cs != nil {
							cs.Get([]byte("c"), moss.ReadOptions{})
							cs.Close()
						}
					}
					ss.Close()
				}
				coll.Get([]byte("p2"), moss.ReadOptions{})
			}
			done.Send(3)
		})
		vs.Go("monitor", func() {
			for k := 0; k < 2; k++ {
				coll.Stats()
				coll.Histograms()
				if store != nil {
					store.Stats()
					if ss, err := store.Snapshot(); err == nil && ss != nil {
						ss.Get([]byte("m2"), moss.ReadOptions{})
						ss.Close()
					}
				}
			}
			done.Send(4)
		})
		// second late reader: takes a snapshot as soon as writer 1 has executed its first batch and reads it a few
		// scheduling turns later without any synchronisation in between (yields add no happens-before edge)
		vs.Go("lazyreader", func() {
			first.Recv()
			ss, err := coll.Snapshot()
			for i := 0; i < 4; i++ {
				vs.Yield("lazy")
			}
			if err == nil {
				ss.Get([]byte("m1"), moss.ReadOptions{})
				ss.Get([]byte("p1"), moss.ReadOptions{})
				ss.Close()
			}
			done.Send(6)
		})
		// closer: waits for everybody, then closes collection and store
		for n := 0; n < 6; n++ {
			done.Recv()
		}
		coll.Close()
		if store != nil {
			store.Close()
		}
	})
}

type raceJob struct {
	Tier   string `json:"tier"`
	Opt    int    `json:"opt"`
	Prefix []int  `json:"prefix"`
	Bound  int    `json:"bound"`
	Desc   bool   `json:"desc"`
	Single bool   `json:"single"`
}

type raceRes struct {
	Execs     int       `json:"execs"`
	Points    int       `json:"points"`
	MaxPoints int       `json:"max_points"`
	Children  []raceJob `json:"children,omitempty"`
	Infra     string    `json:"infra,omitempty"`
	Sample    string    `json:"sample,omitempty"`
	NotDone   int       `json:"not_done"`
	Capped    bool      `json:"capped,omitempty"`
}

func init() {
	workerHandlers["g2race"] = func(data json.RawMessage) (any, error) {
		var j raceJob
		if err := json.Unmarshal(data, &j); err != nil {
			return nil, err
		}
		return raceRun(j), nil
	}
	engines["C17"] = checkC17
}

// raceExecute runs one schedule of one option set; the detector halts the process on a report.
func raceExecute(o raceOpts, prefix []int, desc bool, keepTrace bool) (choices, nalts []int, trace []string, notDone bool, infra string) {
	fmt.Fprintf(os.Stderr, "G2RACE-EXEC opt=%q desc=%v prefix=%v\n", o.Name, desc, prefix)
	dir, err := os.MkdirTemp(tmpRoot(), "mossrace-")
	if err != nil {
		return nil, nil, nil, false, err.Error()
	}
	defer os.RemoveAll(dir)
	s := vs.New()
	raceBuild(s, o, dir)
	last := -1
	for step := 0; step < 50000; step++ {
		alts := alternatives(s, last, desc)
		if len(alts) == 0 {
			break
		}
		c := 0
		if step < len(prefix) {
			c = prefix[step]
			if c >= len(alts) {
				return nil, nil, nil, false, fmt.Sprintf("replay divergence at point %d", step)
			}
		}
		choices = append(choices, c)
		nalts = append(nalts, len(alts))
		t := s.Thread(alts[c].tid)
		if keepTrace {
			trace = append(trace, fmt.Sprintf("%d:%s@%s", alts[c].tid, t.Name, t.PendingKind()))
		}
		s.Step(t, alts[c].choice)
		last = alts[c].tid
	}
	for i := 0; i < s.NumThreads(); i++ {
		t := s.Thread(i)
		if t.Panic != nil {
			infra = fmt.Sprintf("thread %s panicked: %v", t.Name, t.Panic)
		}
		if !t.Done {
			notDone = true
		}
	}
	if notDone {
		s.Kill()
	}
	vs.S = nil
	return
}

func raceRun(j raceJob) (res raceRes) {
	o := raceOptionSets(j.Tier)[j.Opt]
	deadline := time.Now().Add(120 * time.Second)
	if j.Single {
		c, _, tr, nd, infra := raceExecute(o, j.Prefix, j.Desc, true)
		res.Execs, res.Points, res.Infra = 1, len(c), infra
		if nd {
			res.NotDone++
		}
		res.Sample = strings.Join(tr, " ")
		return
	}
	var explore func(prefix []int, bound int, root bool)
	explore = func(prefix []int, bound int, root bool) {
		if res.Infra != "" {
			return
		}
		if !root && time.Now().After(deadline) {
			res.Capped = true
			return
		}
		choices, nalts, tr, nd, infra := raceExecute(o, prefix, j.Desc, root)
		if infra != "" {
			res.Infra = infra
			return
		}
		res.Execs++
		res.Points += len(choices)
		if len(choices) > res.MaxPoints {
			res.MaxPoints = len(choices)
		}
		if nd {
			res.NotDone++
		}
		if root {
			res.Sample = fmt.Sprintf("default schedule, options {%s}: %d points: %s", o.Name, len(tr), strings.Join(tr, " "))
		}
		if bound <= 0 {
			return
		}
		for i := len(prefix); i < len(choices); i++ {
			for alt := 1; alt < nalts[i]; alt++ {
				child := append(append([]int{}, choices[:i]...), alt)
				if root {
					res.Children = append(res.Children, raceJob{Tier: j.Tier, Opt: j.Opt, Prefix: child, Bound: bound - 1, Desc: j.Desc})
				} else {
					explore(child, bound-1, false)
				}
			}
		}
	}
	explore(j.Prefix, j.Bound, len(j.Prefix) == 0)
	return
}

var raceExecRe = regexp.MustCompile(`G2RACE-EXEC opt="([^"]*)" desc=(true|false) prefix=\[([0-9 ]*)\]`)

func checkC17(prop, tier string) int {
	t0 := time.Now()
	exe := os.Getenv("MOSSMC_RACE")
	if exe == "" {
		fmt.Fprintln(os.Stderr, "C17 needs the -race build of the harness (MOSSMC_RACE); run it through scripts/check.sh")
		return 2
	}
	if _, err := os.Stat(exe); err != nil {
		fmt.Fprintln(os.Stderr, "C17: race harness not found:", err)
		return 2
	}
	opts := raceOptionSets(tier)
	maxBound := 1
	budget := 170 * time.Second
	if tier == "thorough" {
		maxBound = 2
		budget = 12 * time.Minute
	}
	pool := NewPool()
	pool.Exe = exe
	pool.Env = []string{"GORACE=halt_on_error=1 exitcode=66", "GOMAXPROCS=1"}
	pool.JobTimeout = 6 * time.Minute
	pool.Deadline = t0.Add(budget)
	pool.Recycle = 20
	var tot raceRes
	infra, skipped := 0, 0
	capped := false
	var viols []Violation
	seen := map[string]bool{}
	var samples []any
	boundDone := -1
	handleCrash := func(oi int, r JobResult) {
		// a detector report halts the worker with exit code 66; the schedule being executed is its last G2RACE-EXEC line
		if !strings.Contains(r.Stderr, "DATA RACE") {
			infra++
			fmt.Fprintf(os.Stderr, "INFRA: race worker failed without a detector report: %s %s\n", r.Err, tail(r.Stderr, 1500))
			return
		}
		ms := raceExecRe.FindAllStringSubmatch(r.Stderr, -1)
		if len(ms) == 0 {
			infra++
			fmt.Fprintf(os.Stderr, "INFRA: detector report without schedule marker: %s\n", tail(r.Stderr, 1500))
			return
		}
		m := ms[len(ms)-1]
		var prefix []int
		for _, f := range strings.Fields(m[3]) {
			n := 0
			fmt.Sscan(f, &n)
			prefix = append(prefix, n)
		}
		desc := m[2] == "true"
		report := r.Stderr[strings.Index(r.Stderr, "WARNING: DATA RACE"):]
		// confirm: the same schedule must be reported again, twice, in fresh processes
		for rep := 0; rep < 2; rep++ {
			r2 := pool.RunOne(Job{Kind: "g2race", Data: mustJSON(raceJob{Tier: tier, Opt: oi, Prefix: prefix, Desc: desc, Single: true})})
			if !(r2.Crashed && strings.Contains(r2.Stderr, "DATA RACE")) {
				infra++
				fmt.Fprintf(os.Stderr, "UNSTABLE: a detector report for options {%s} schedule %v did not reproduce\n", opts[oi].Name, prefix)
				return
			}
		}
		sig := "data-race|" + raceSite(report) + "|any"
		if !strings.Contains(report, "couchbase/moss") {
			sig = "data-race-outside-moss|" + raceSite(report) + "|any"
		}
		if !seen[sig] {
			seen[sig] = true
			viols = append(viols, Violation{Prop: "C17", Sig: sig, Msg: fmt.Sprintf("options {%s}, schedule prefix %v (desc=%v): the race detector reports:\n%s", opts[oi].Name, prefix, desc, tail(report, 3000))})
			writeReplay("C17-sched", map[string]any{"property": "C17", "engine": "G2race", "tier": tier, "opt": oi, "options": opts[oi].Name, "schedule": prefix, "desc": desc, "report": tail(report, 4000)})
		}
	}
	for bound := 0; bound <= maxBound && len(viols) == 0; bound++ {
		complete := true
		for oi := range opts {
			for _, desc := range []bool{false, true} {
				if desc && bound == 0 {
					continue
				}
				root := pool.RunOne(Job{Kind: "g2race", Data: mustJSON(raceJob{Tier: tier, Opt: oi, Bound: bound, Desc: desc})})
				var rr raceRes
				if root.Crashed {
					handleCrash(oi, root)
					complete = false
					continue
				}
				if root.Err != "" || json.Unmarshal(root.Data, &rr) != nil || rr.Infra != "" {
					infra++
					complete = false
					fmt.Fprintf(os.Stderr, "INFRA: race root job: %s %s\n", root.Err, rr.Infra)
					continue
				}
				all := []raceRes{rr}
				var jobs []Job
				for _, c := range rr.Children {
					jobs = append(jobs, Job{Kind: "g2race", Data: mustJSON(c)})
				}
				for _, r := range pool.Run(jobs) {
					if r.Skipped {
						skipped++
						complete = false
						continue
					}
					if r.Crashed {
						handleCrash(oi, r)
						complete = false
						continue
					}
					var cr raceRes
					if r.Err != "" || json.Unmarshal(r.Data, &cr) != nil {
						infra++
						complete = false
						continue
					}
					all = append(all, cr)
				}
				for _, cr := range all {
					if cr.Infra != "" {
						infra++
						complete = false
						fmt.Fprintf(os.Stderr, "INFRA: race job: %s\n", cr.Infra)
					}
					if cr.Capped {
						capped = true
						complete = false
					}
					tot.Execs += cr.Execs
					tot.Points += cr.Points
					tot.NotDone += cr.NotDone
					if cr.MaxPoints > tot.MaxPoints {
						tot.MaxPoints = cr.MaxPoints
					}
				}
				if bound == 0 && rr.Sample != "" && len(samples) < 4 {
					samples = append(samples, rr.Sample)
				}
			}
		}
		if complete {
			boundDone = bound
		}
		fmt.Fprintf(os.Stderr, "[C17 %s] deviation bound %d: executions so far %d, reports %d, %.0fs\n", tier, bound, tot.Execs, len(viols), time.Since(t0).Seconds())
		if time.Now().After(pool.Deadline) {
			break
		}
	}
	viols = reportViolations("C17", "G2", viols)
	if len(samples) == 0 {
		samples = append(samples, "none")
	}
	var names []string
	for _, o := range opts {
		names = append(names, o.Name)
	}
	writeEvidence(&Evidence{PropertyID: "C17", Tier: tier, Violations: len(viols), WallS: time.Since(t0).Seconds(),
		Assumptions: append([]string{"race oracle = Go race detector (go build -race) per enumerated schedule; scheduler hand-off through plain memory in //go:norace code (invisible to the detector), modelled primitives forward the Go-memory-model edges: mutex lock/unlock, channel send->receive, close->receive, unbuffered receive->send completion, go statement; GOMAXPROCS=1"}, commonAssumptions...),
		Coverage: map[string]any{
			"states":                        tot.Points,
			"transitions":                   tot.Points,
			"traces_validated_against_impl": tot.Execs,
			"evaluations":                   tot.Execs,
			"distinct_nontrivial":           len(opts) * 2,
			"rule":                          "stateless DFS over schedules (as C03/C16: deviation-bounded, ascending and descending round-robin default) of a concurrent program - two writers with disjoint keys (optionally child batches), a reader (Snapshot, Get, iterator, child snapshot, Collection.Get), a monitor (Stats), the merger, the persister with the real Store.Persist / compaction, and Close of collection and store - for each option set; every execution runs under the race detector, a report halts the worker and is confirmed by re-running the same schedule twice; distinct_nontrivial = option sets x default orders",
			"samples":                       samples,
			"exhaustive":                    infra == 0 && skipped == 0 && !capped && boundDone == maxBound,
			"cap_hit":                       fmt.Sprintf("skipped subtrees: %d, capped: %v", skipped, capped),
			"executions":                    tot.Execs,
			"executions_with_threads_left":  tot.NotDone,
			"max_schedule_points":           tot.MaxPoints,
			"deviation_bound_completed":     boundDone,
			"deviation_bound_target":        maxBound,
			"option_sets":                   names,
			"infrastructure_errors":         infra,
		}})
	fmt.Fprintf(os.Stderr, "[C17 %s] executions=%d points=%d maxpoints=%d bound_done=%d reports=%d infra=%d skipped=%d notdone=%d wall=%.1fs\n", tier, tot.Execs, tot.Points, tot.MaxPoints, boundDone, len(viols), infra, skipped, tot.NotDone, time.Since(t0).Seconds())
	if len(viols) > 0 {
		return 1
	}
	if infra > 0 && tot.Execs == 0 {
		return 2
	}
	return 0
}

var raceFrameRe = regexp.MustCompile(`couchbase/moss\.([A-Za-z0-9_().*]+)`)

// raceSite extracts the two top moss frames of a detector report for the violation signature.
func raceSite(report string) string {
	ms := raceFrameRe.FindAllStringSubmatch(report, -1)
	var fr []string
	for _, m := range ms {
		f := m[1]
		dup := false
		for _, x := range fr {
			if x == f {
				dup = true
			}
		}
		if !dup {
			fr = append(fr, f)
		}
		if len(fr) == 2 {
			break
		}
	}
	return strings.Join(fr, "+")
}
