package main

import (
	"encoding/json"
	"fmt"
	"os"
	"sort"
	"time"

	"github.com/couchbase/moss"
)

// C14 - lookups do not depend on the segment key index (engine G4).

var c14Universe = []string{"", "a", "aa", "ab", "abc", "b", "ba", "c", "cc", "d"}

func c14Probes() []string {
	set := map[string]bool{}
	for _, k := range c14Universe {
		set[k] = true
		set[k+"\x00"] = true
	}
	for _, k := range []string{"0", "a0", "abb", "bb", "cd", "e", "zz"} {
		set[k] = true
	}
	var out []string
	for k := range set {
		out = append(out, k)
	}
	sort.Strings(out)
	return out
}

type c14Job struct {
	From, To int    // key-set masks [From,To)
	Tier     string `json:"tier"`
}

type c14Res struct {
	InPkgCases  int         `json:"inpkg"`
	PublicCases int         `json:"public"`
	Sets        int         `json:"sets"`
	Indexed     int         `json:"indexed"` // (set, quota, min) combinations for which an index was really built
	Truncated   int         `json:"truncated"`
	Hops        map[int]int `json:"hops"`
	Opens       int         `json:"opens"`
	MergeForms  int         `json:"merge_forms"` // public-path runs whose persisted segment holds unresolved merge operands
	Viols       []Violation `json:"viols,omitempty"`
	Sample      string      `json:"sample,omitempty"`
	Infra       string      `json:"infra,omitempty"`
}

func init() {
	workerHandlers["c14"] = func(data json.RawMessage) (any, error) {
		var j c14Job
		if err := json.Unmarshal(data, &j); err != nil {
			return nil, err
		}
		return c14Run(j), nil
	}
	engines["C14"] = checkC14
}

func c14Run(j c14Job) (res c14Res) {
	probes := c14Probes()
	res.Hops = map[int]int{}
	defer func() {
		if r := recover(); r != nil {
			res.Viols = append(res.Viols, Violation{Prop: "C14", Sig: "panic|index|any", Msg: fmt.Sprint("panic: ", r)})
		}
	}()
	for mask := j.From; mask < j.To; mask++ {
		if mask == 0 {
			continue
		}
		var keys []string
		total := 0
		for i, k := range c14Universe {
			if mask&(1<<i) != 0 {
				keys = append(keys, k)
				total += len(k)
			}
		}
		sort.Strings(keys)
		res.Sets++
		// ---- in-package: every quota x minKeyBytes x probe against the sorted-slice model
		for quota := 1; quota <= 60; quota++ {
			for _, min := range []int{0, total, total + 1} {
				seg := moss.NewVerifIndexedSegment(keys, quota, min)
				if has, hop, nk := seg.HasIndex(); has {
					res.Indexed++
					res.Hops[hop]++
					if nk < (len(keys)+hop-1)/hop {
						res.Truncated++
					}
				}
				for _, p := range probes {
					res.InPkgCases++
					wantStart := sort.SearchStrings(keys, p)
					wantPos := -1
					if wantStart < len(keys) && keys[wantStart] == p {
						wantPos = wantStart
					}
					gotPos, err := seg.FindKeyPos(p)
					gotStart := seg.FindStartPos(p)
					if err != nil || gotPos != wantPos || gotStart != wantStart {
						res.Viols = append(res.Viols, Violation{Prop: "C14", Sig: "index-lookup-wrong|in-package|any",
							Msg: fmt.Sprintf("keys %q quota=%d minKeyBytes=%d probe %q: findKeyPos=%d (err %v) want %d; findStartKeyInclusivePos=%d want %d", keys, quota, min, p, gotPos, err, wantPos, gotStart, wantStart)})
						if len(res.Viols) >= 5 {
							return
						}
					}
				}
			}
		}
		// ---- public path: persist the set, reopen under every index setting, compare with the no-index open
		quotas := []int{1, 5, 9, 13, 17, 21, 29, 37, 45, 60}
		if j.Tier == "thorough" {
			quotas = nil
			for q := 1; q <= 60; q++ {
				quotas = append(quotas, q)
			}
		} else if mask%2 != 1 {
			continue // quick: public path for every 2nd key set
		}
		// two forms: plain sets; and (every other key set) merge operands on every second key, which a plain
		// persistence round writes to the file unresolved - a persisted segment whose entries are not all sets
		forms := []string{"sets"}
		if len(keys) >= 2 && (j.Tier == "thorough" || mask%4 == 1) {
			forms = append(forms, "merges")
		}
		for _, form := range forms {
			b := &BatchSpec{}
			isMerge := map[string]bool{}
			for i, k := range keys {
				if form == "merges" && i%2 == 1 {
					b.Ops = append(b.Ops, Op{Kind: 'M', Key: k, Val: "v" + k})
					isMerge[k] = true
				} else {
					b.Ops = append(b.Ops, Op{Kind: 'S', Key: k, Val: "v" + k})
				}
			}
			w := NewWorld(Config{Backing: "store", MinMergePct: 100, KeysIndexMax: -1, MergeOp: form == "merges"}, []*BatchSpec{b})
			for _, st := range []string{"B0", "M", "Pb", "Pe"} {
				if !w.Step(st) || w.infra != "" {
					res.Infra = "build " + st + ": " + w.infra
					w.Teardown()
					return
				}
			}
			w.closeAll()
			if w.infra != "" {
				res.Infra = w.infra
				w.Teardown()
				return
			}
			read := func(quota int) (map[string]string, string) {
				so, _ := w.storeOptions()
				so.SegmentKeysIndexMaxBytes = quota
				so.SegmentKeysIndexMinKeyBytes = 1
				so.CollectionOptions.ReadOnly = false
				st, err := moss.OpenStore(w.dir, so)
				if err != nil {
					return nil, "OpenStore: " + err.Error()
				}
				res.Opens++
				defer st.Close()
				ss, err := st.Snapshot()
				if err != nil || ss == nil {
					return nil, "Snapshot failed"
				}
				defer ss.Close()
				out := map[string]string{}
				for _, p := range probes {
					v, err := ss.Get([]byte(p), moss.ReadOptions{})
					out["get:"+p] = fmtVal(v) + errS(err)
				}
				rng := probes
				if j.Tier != "thorough" {
					rng = []string{"", "a", "ab", "abc\x00", "b", "bb", "c", "d\x00"}
				}
				for _, s := range append([]string{nilMark}, rng...) {
					for _, e := range append([]string{nilMark}, rng...) {
						it, err := ss.StartIterator(boundOf(s), boundOf(e), moss.IteratorOptions{})
						if err != nil || it == nil {
							out["range:"+s+"|"+e] = "ERR"
							continue
						}
						kv, errs := iterAll(it)
						it.Close()
						out["range:"+s+"|"+e] = fmt.Sprint(kv, errs)
					}
				}
				return out, ""
			}
			base, e := read(-1)
			if e != "" {
				res.Infra = e
				w.Teardown()
				return
			}
			// absolute check of the no-index open against the model
			for _, p := range probes {
				want := "nil"
				if i := sort.SearchStrings(keys, p); i < len(keys) && keys[i] == p {
					want = fmtVal([]byte("v" + p))
					if isMerge[p] {
						want = fmtVal([]byte(mergeFold(nil, "v"+p)))
					}
				}
				if base["get:"+p] != want {
					res.Viols = append(res.Viols, Violation{Prop: "C14", Sig: "lookup-wrong-without-index|public|any", Msg: fmt.Sprintf("keys %q, no index: Get(%q)=%s want %s", keys, p, base["get:"+p], want)})
				}
			}
			for _, q := range quotas {
				got, e := read(q)
				if e != "" {
					res.Infra = e
					break
				}
				for k, v := range base {
					res.PublicCases++
					if got[k] != v {
						res.Viols = append(res.Viols, Violation{Prop: "C14", Sig: "index-changes-result|public|any",
							Msg: fmt.Sprintf("keys %q: %q gives %s with SegmentKeysIndexMaxBytes=%d but %s without an index", keys, k, got[k], q, v)})
						if len(res.Viols) >= 5 {
							w.Teardown()
							return
						}
					}
				}
			}
			if form == "merges" {
				res.MergeForms++
			}
			if res.Sample == "" {
				res.Sample = fmt.Sprintf("key set %q: quotas 1..60 x minKeyBytes {0,%d,%d} x %d probes in-package; public path reopened with SegmentKeysIndexMaxBytes in %v, %d lookups/ranges each", keys, total, total+1, len(probes), quotas, len(base))
			}
			w.Teardown()
		}
	}
	return
}

func errS(err error) string {
	if err == nil {
		return ""
	}
	return " ERR:" + err.Error()
}

func checkC14(prop, tier string) int {
	t0 := time.Now()
	var jobs []Job
	n := 1 << len(c14Universe)
	for from := 0; from < n; from += 16 {
		jobs = append(jobs, Job{Kind: "c14", Data: mustJSON(c14Job{From: from, To: from + 16, Tier: tier})})
	}
	pool := NewPool()
	pool.Deadline = time.Now().Add(g4Deadline(tier))
	results := pool.Run(jobs)
	skippedByDeadline := countSkipped(results)
	var tot c14Res
	tot.Hops = map[int]int{}
	infra := 0
	var viols []Violation
	seen := map[string]bool{}
	var samples []any
	for i, r := range results {
		if r.Crashed || r.Err != "" {
			if v := crashViolation(pool, "C14", jobs[i], r); v != nil {
				viols = append(viols, *v)
				continue
			}
			infra++
			fmt.Fprintf(os.Stderr, "INFRA: c14 job %d: %s %s\n", i, r.Err, tail(r.Stderr, 400))
			continue
		}
		var cr c14Res
		json.Unmarshal(r.Data, &cr)
		if cr.Infra != "" {
			infra++
			fmt.Fprintf(os.Stderr, "INFRA: c14 job %d: %s\n", i, cr.Infra)
		}
		tot.InPkgCases += cr.InPkgCases
		tot.PublicCases += cr.PublicCases
		tot.Sets += cr.Sets
		tot.Indexed += cr.Indexed
		tot.Truncated += cr.Truncated
		tot.Opens += cr.Opens
		tot.MergeForms += cr.MergeForms
		for h, c := range cr.Hops {
			tot.Hops[h] += c
		}
		if cr.Sample != "" && len(samples) < 4 && i%17 == 0 {
			samples = append(samples, cr.Sample)
		}
		for _, v := range cr.Viols {
			if !seen[v.Sig] {
				seen[v.Sig] = true
				viols = append(viols, v)
			}
		}
	}
	viols = reportViolations("C14", "G4", viols)
	if len(samples) == 0 {
		samples = append(samples, "none")
	}
	writeEvidence(&Evidence{PropertyID: "C14", Tier: tier, Violations: len(viols), WallS: time.Since(t0).Seconds(), Assumptions: commonAssumptions,
		Coverage: map[string]any{
			"states":                        tot.Indexed,
			"transitions":                   tot.InPkgCases + tot.PublicCases,
			"traces_validated_against_impl": tot.InPkgCases + tot.PublicCases,
			"evaluations":                   tot.InPkgCases + tot.PublicCases,
			"distinct_nontrivial":           tot.Indexed,
			"rule":                          "all non-empty subsets of a 10-key universe x index quota 1..60 x minKeyBytes {0,total,total+1} x every probe: the real findKeyPos/findStartKeyInclusivePos on a segment indexed exactly as on load, against a sorted-slice model; plus the public path (persist, reopen with each SegmentKeysIndexMaxBytes, compare every Get and range with the no-index open; for part of the key sets also with merge operands on every second key, which a plain persistence round writes unresolved). states/distinct_nontrivial = (key set, quota, minKeyBytes) combinations for which an index was actually built",
			"samples":                       samples,
			"exhaustive":                    infra == 0 && skippedByDeadline == 0,
			"cap_hit":                       fmt.Sprintf("%d of %d jobs skipped by the deadline of %v", skippedByDeadline, len(jobs), g4Deadline(tier)),
			"key_sets":                      tot.Sets,
			"in_package_cases":              tot.InPkgCases,
			"public_path_cases":             tot.PublicCases,
			"store_opens":                   tot.Opens,
			"persisted_with_merge_operands": tot.MergeForms,
			"indexes_truncated_by_quota":    tot.Truncated,
			"hops_seen":                     tot.Hops,
			"infrastructure_errors":         infra,
		}})
	fmt.Fprintf(os.Stderr, "[C14 %s] sets=%d inpkg=%d public=%d indexed=%d truncated=%d hops=%v violations=%d infra=%d wall=%.1fs\n", tier, tot.Sets, tot.InPkgCases, tot.PublicCases, tot.Indexed, tot.Truncated, tot.Hops, len(viols), infra, time.Since(t0).Seconds())
	if len(viols) > 0 {
		return 1
	}
	if infra > 0 && tot.Sets == 0 {
		return 2
	}
	return 0
}

// reportViolations prints KNOWN-FINDING / VIOLATION lines for a list of (deduplicated) violations and
// returns those that are not attributed to an open known finding.
func reportViolations(prop, engine string, viols []Violation) []Violation {
	findings := loadFindings()
	known := map[string]int{}
	var fresh []Violation
	for _, v := range viols {
		matched := false
		for _, f := range findings {
			if f.Status == "open" && f.Property == prop && f.Signature == v.Sig {
				known[f.ID]++
				matched = true
			}
		}
		if !matched {
			fresh = append(fresh, v)
		}
	}
	for _, f := range findings {
		if f.Status == "open" && f.Property == prop && known[f.ID] > 0 {
			fmt.Printf("KNOWN-FINDING: property=%s %s (%s)\n", prop, f.What, f.ID)
		}
	}
	for _, v := range fresh {
		body := map[string]any{"property": prop, "engine": engine, "signature": v.Sig, "message": v.Msg}
		for k, x := range v.Replay {
			body[k] = x
		}
		p := writeReplay(prop, body)
		fmt.Printf("VIOLATION property=%s replay=%s\n", prop, p)
		fmt.Fprintln(os.Stderr, "  "+v.Msg)
	}
	return fresh
}
