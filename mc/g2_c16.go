package main

import (
	"errors"
	"fmt"
	"sort"
	"strings"

	"github.com/couchbase/moss"
	vs "vsched"
)

// C16 - calls return, back-pressure is bounded, Close is final (engine G2).

type callRec struct {
	tid            int
	blockedAtClose bool // the call was parked on back-pressure when Close was called
	name           string
	started        int // logical event number at call start (0 = not started)
	returned       int // logical event number at return (0 = not returned)
	err            error
	val            string
}

type c16State struct {
	w      *World
	ev     int
	calls  []*callRec
	closed int // event number at which Close returned
	maxPre int
}

func (st *c16State) call(name string, f func() (string, error)) {
	st.ev++
	r := &callRec{name: name, started: st.ev, tid: vs.CurrentID()}
	st.calls = append(st.calls, r)
	v, err := f()
	st.ev++
	r.returned, r.err, r.val = st.ev, err, v
}

func errName(err error) string {
	switch {
	case err == nil:
		return "nil"
	case err == moss.ErrClosed:
		return "ErrClosed"
	}
	return err.Error()
}

func (st *c16State) outcome() string {
	var parts []string
	for _, c := range st.calls {
		if c.returned == 0 {
			parts = append(parts, c.name+"=<never returned>")
		} else {
			parts = append(parts, c.name+"="+errName(c.err))
		}
	}
	sort.Strings(parts)
	return strings.Join(parts, " ")
}

func setBatch(coll moss.Collection, key, val string) (string, error) {
	b, err := coll.NewBatch(4, 64)
	if err != nil {
		return "newbatch", err
	}
	b.Set([]byte(key), []byte(val))
	err = coll.ExecuteBatch(b, moss.WriteOptions{})
	b.Close()
	return "", err
}

// c16Final is the final oracle shared by all C16 programs.
func (st *c16State) final(deadlock string) []Violation {
	var out []Violation
	st.w.outcome = st.outcome()
	for _, c := range st.calls {
		if c.returned == 0 {
			out = append(out, Violation{Sig: "call-never-returns|" + strings.SplitN(c.name, "#", 2)[0] + "|any",
				Msg: fmt.Sprintf("%s never returned although every thread ran as far as it could; threads still alive: %s", c.name, deadlock)})
			return out
		}
	}
	if deadlock != "" {
		out = append(out, Violation{Sig: "threads-left-behind|background|any", Msg: "all driver calls returned but background threads never finished: " + deadlock})
		return out
	}
	if st.closed > 0 && st.w.coll != nil {
		if n := moss.VerifTopLen(st.w.coll); n > 0 {
			out = append(out, Violation{Sig: "batch-accepted-by-closed-collection|top|any", Msg: fmt.Sprintf("after Close has returned and every thread has finished the collection still holds %d accepted but unmerged batches: a batch was accepted after the collection was closed; calls: %s", n, st.outcome())})
		}
	}
	for _, c := range st.calls {
		kind := strings.SplitN(c.name, "#", 2)[0]
		afterClose := st.closed > 0 && c.started > st.closed
		switch kind {
		case "ExecuteBatch":
			if c.blockedAtClose && c.err != moss.ErrClosed {
				out = append(out, Violation{Sig: "blocked-writer-not-released-with-errclosed|ExecuteBatch|any", Msg: fmt.Sprintf("%s was still parked on back-pressure when Close returned and came back with %s instead of ErrClosed", c.name, errName(c.err))})
			}
			if c.err != nil && c.err != moss.ErrClosed {
				out = append(out, Violation{Sig: "unexpected-error|ExecuteBatch|any", Msg: c.name + " returned " + c.err.Error()})
			}
			if c.err == moss.ErrClosed && st.closed == 0 {
				out = append(out, Violation{Sig: "errclosed-without-close|ExecuteBatch|any", Msg: c.name + " returned ErrClosed although Close was never called"})
			}
			if afterClose && c.err != moss.ErrClosed {
				out = append(out, Violation{Sig: "no-errclosed-after-close|ExecuteBatch|any", Msg: fmt.Sprintf("%s started after Close had returned and returned %s instead of ErrClosed", c.name, errName(c.err))})
			}
		case "NewBatch", "Snapshot", "Get":
			if afterClose && c.err != moss.ErrClosed {
				out = append(out, Violation{Sig: "no-errclosed-after-close|" + kind + "|any", Msg: fmt.Sprintf("%s started after Close had returned and returned %s instead of ErrClosed", c.name, errName(c.err))})
			}
			if !afterClose && st.closed == 0 && c.err != nil {
				out = append(out, Violation{Sig: "unexpected-error|" + kind + "|any", Msg: c.name + " returned " + c.err.Error()})
			}
		case "ExecuteEmptyBatch":
			if c.err != nil {
				out = append(out, Violation{Sig: "unexpected-error|ExecuteEmptyBatch|any", Msg: c.name + " returned " + c.err.Error()})
			}
		case "NotifyMerger":
			if c.err != nil && c.err != moss.ErrClosed {
				out = append(out, Violation{Sig: "unexpected-error|NotifyMerger|any", Msg: c.name + " returned " + c.err.Error()})
			}
		}
	}
	return out
}

func (st *c16State) invariant() *Violation {
	if st.w.coll == nil {
		return nil
	}
	if n := moss.VerifTopLen(st.w.coll); n > st.maxPre {
		return &Violation{Sig: "back-pressure-exceeded|top|any", Msg: fmt.Sprintf("%d accepted but unmerged batches, MaxPreMergerBatches = %d", n, st.maxPre)}
	}
	return nil
}

func c16World(cfg Config) (*World, *c16State) {
	w := NewWorld(cfg, nil)
	w.gateOff = true // the lower level always makes progress unless a program says otherwise
	st := &c16State{w: w, maxPre: cfg.MaxPre}
	if st.maxPre == 0 {
		st.maxPre = 2
	}
	return w, st
}

// closeColl is the body of every closer thread: it closes the collection and notes which driver calls are
// still parked on the back-pressure condition at the moment Close returns (they have been woken by Close and
// must come back with ErrClosed).
func (st *c16State) closeColl() {
	st.call("Close#1", func() (string, error) { return "", st.w.coll.Close() })
	st.closed = st.ev
	st.w.closedColl = true
	for _, c := range st.calls {
		if c.returned == 0 && c.tid >= 0 && c.tid < st.w.s.NumThreads() && st.w.s.Thread(c.tid).PendingKind() == vs.KCondWait {
			c.blockedAtClose = true
		}
	}
}

func (st *c16State) spawn(name string, f func()) {
	t := st.w.s.Spawn(name, f)
	st.w.mains[t.ID] = true
}

var errStall = errors.New("verif: lower level update failed once")

func init() {
	g2Programs["C16"] = func(tier string) []g2Program {
		progs := []g2Program{
			{Name: "a: two writers x 2 batches, MaxPreMergerBatches=1, Close from a third thread (map lower level)",
				Build: func() (*World, func() *Violation, func(string) []Violation) {
					w, st := c16World(Config{Backing: "map", MinMergePct: 100, MaxPre: 1})
					if w.infra != "" {
						return w, nil, st.final
					}
					for i := 1; i <= 2; i++ {
						i := i
						st.spawn(fmt.Sprintf("writer%d", i), func() {
							for j := 1; j <= 2; j++ {
								st.call(fmt.Sprintf("ExecuteBatch#w%d.%d", i, j), func() (string, error) { return setBatch(w.coll, fmt.Sprintf("k%d", i), fmt.Sprint(j)) })
							}
						})
					}
					st.spawn("closer", func() {
						st.closeColl()
					})
					return w, st.invariant, st.final
				}},
			{Name: "b: writer x 3 batches, MaxDirtyOps=1, lower level fails once then succeeds, Close from a second thread",
				Build: func() (*World, func() *Violation, func(string) []Violation) {
					w, st := c16World(Config{Backing: "map", MinMergePct: 100, MaxPre: 1, MaxDirtyOps: 1})
					if w.infra != "" {
						return w, nil, st.final
					}
					failed := false
					moss.VerifWrapLLU(w.coll, func(orig moss.LowerLevelUpdate) moss.LowerLevelUpdate {
						return func(h moss.Snapshot) (moss.Snapshot, error) {
							vs.Yield("llu-slow-1")
							if !failed {
								failed = true
								return nil, errStall
							}
							vs.Yield("llu-slow-2")
							return orig(h)
						}
					})
					st.spawn("writer", func() {
						for j := 1; j <= 3; j++ {
							st.call(fmt.Sprintf("ExecuteBatch#w.%d", j), func() (string, error) { return setBatch(w.coll, "k", fmt.Sprint(j)) })
						}
					})
					st.spawn("closer", func() {
						st.closeColl()
					})
					return w, st.invariant, st.final
				}},
			{Name: "c: synchronous NotifyMerger racing a writer and Close",
				Build: func() (*World, func() *Violation, func(string) []Violation) {
					w, st := c16World(Config{Backing: "none", MinMergePct: 100, MaxPre: 1})
					if w.infra != "" {
						return w, nil, st.final
					}
					nm := w.coll.(interface{ NotifyMerger(string, bool) error })
					st.spawn("notifier", func() {
						st.call("NotifyMerger#sync", func() (string, error) { return "", nm.NotifyMerger("mergeAll", true) })
					})
					st.spawn("writer", func() {
						st.call("ExecuteBatch#w.1", func() (string, error) { return setBatch(w.coll, "k", "1") })
					})
					st.spawn("closer", func() {
						st.closeColl()
					})
					return w, st.invariant, st.final
				}},
			{Name: "e: writer x 2 batches while every LowerLevelUpdate fails, Close from a second thread",
				Build: func() (*World, func() *Violation, func(string) []Violation) {
					w, st := c16World(Config{Backing: "map", MinMergePct: 100, MaxPre: 1})
					if w.infra != "" {
						return w, nil, st.final
					}
					moss.VerifWrapLLU(w.coll, func(orig moss.LowerLevelUpdate) moss.LowerLevelUpdate {
						return func(h moss.Snapshot) (moss.Snapshot, error) {
							vs.Yield("llu-failing")
							return nil, errStall
						}
					})
					st.spawn("writer", func() {
						for j := 1; j <= 2; j++ {
							st.call(fmt.Sprintf("ExecuteBatch#w.%d", j), func() (string, error) { return setBatch(w.coll, "k", fmt.Sprint(j)) })
						}
					})
					st.spawn("closer", func() {
						st.closeColl()
					})
					return w, st.invariant, st.final
				}},
			{Name: "f: ReadOnly store collection (no merger): writer x 2 batches with MaxPreMergerBatches=1, Close from a second thread",
				Build: func() (*World, func() *Violation, func(string) []Violation) {
					w, st := c16World(Config{Backing: "store", MinMergePct: 100, MaxPre: 1, ReadOnly: true})
					if w.infra != "" {
						return w, nil, st.final
					}
					st.spawn("writer", func() {
						for j := 1; j <= 2; j++ {
							st.call(fmt.Sprintf("ExecuteBatch#w.%d", j), func() (string, error) { return setBatch(w.coll, "k", fmt.Sprint(j)) })
						}
					})
					st.spawn("closer", func() {
						st.closeColl()
					})
					return w, st.invariant, st.final
				}},
			{Name: "g: nobody closes: writer x 4 batches and a synchronous NotifyMerger under MaxDirtyOps=1 with CachePersisted (map lower level) - every call returns",
				Build: func() (*World, func() *Violation, func(string) []Violation) {
					w, st := c16World(Config{Backing: "map", MinMergePct: 100, MaxPre: 2, MaxDirtyOps: 1, CachePersisted: true})
					if w.infra != "" {
						return w, nil, st.final
					}
					st.spawn("writer", func() {
						for j := 1; j <= 4; j++ {
							st.call(fmt.Sprintf("ExecuteBatch#w.%d", j), func() (string, error) { return setBatch(w.coll, "k", fmt.Sprint(j)) })
						}
					})
					st.spawn("notifier", func() {
						st.call("NotifyMerger#sync", func() (string, error) {
							return "", w.coll.(interface{ NotifyMerger(string, bool) error }).NotifyMerger("mergeAll", true)
						})
					})
					return w, st.invariant, func(deadlock string) []Violation {
						// merger and persister legitimately stay parked when nobody closes the collection
						for _, c := range st.calls {
							if c.returned == 0 {
								return st.final(deadlock)
							}
						}
						return st.final("")
					}
				}},
			{Name: "h: a merger cycle fails (merge operand, no MergeOperator configured) while a synchronous NotifyMerger is pending; nobody closes - the notification still returns",
				Build: func() (*World, func() *Violation, func(string) []Violation) {
					w, st := c16World(Config{Backing: "none", MinMergePct: 0.01, MaxPre: 3})
					if w.infra != "" {
						return w, nil, st.final
					}
					st.spawn("writer", func() {
						st.call("ExecuteBatch#w.1", func() (string, error) {
							b, err := w.coll.NewBatch(4, 64)
							if err != nil {
								return "newbatch", err
							}
							b.Set([]byte("a"), []byte("1"))
							b.Set([]byte("z"), []byte("1"))
							err = w.coll.ExecuteBatch(b, moss.WriteOptions{})
							b.Close()
							return "", err
						})
						st.call("ExecuteBatch#w.2", func() (string, error) {
							b, err := w.coll.NewBatch(4, 64)
							if err != nil {
								return "newbatch", err
							}
							b.Merge([]byte("m"), []byte("x"))
							err = w.coll.ExecuteBatch(b, moss.WriteOptions{})
							b.Close()
							return "", err
						})
					})
					st.spawn("notifier", func() {
						st.call("NotifyMerger#sync", func() (string, error) {
							return "", w.coll.(interface{ NotifyMerger(string, bool) error }).NotifyMerger("mergeAll", true)
						})
					})
					return w, st.invariant, func(deadlock string) []Violation {
						for _, c := range st.calls {
							if c.returned == 0 {
								return st.final(deadlock)
							}
						}
						return st.final("")
					}
				}},
			{Name: "i: merger cycles fail (merge operand, no MergeOperator) while a writer is parked on back-pressure (MaxPreMergerBatches=1); nobody closes - every ExecuteBatch still returns",
				Build: func() (*World, func() *Violation, func(string) []Violation) {
					w, st := c16World(Config{Backing: "none", MinMergePct: 0.01, MaxPre: 1})
					if w.infra != "" {
						return w, nil, st.final
					}
					st.spawn("writer", func() {
						for j, op := range []string{"S:z", "M:a", "S:k", "S:q"} {
							op := op
							st.call(fmt.Sprintf("ExecuteBatch#w.%d", j+1), func() (string, error) {
								b, err := w.coll.NewBatch(4, 64)
								if err != nil {
									return "newbatch", err
								}
								if op[0] == 'M' {
									b.Merge([]byte(op[2:]), []byte("x"))
								} else {
									b.Set([]byte(op[2:]), []byte("1"))
								}
								err = w.coll.ExecuteBatch(b, moss.WriteOptions{})
								b.Close()
								return "", err
							})
						}
					})
					return w, st.invariant, func(deadlock string) []Violation {
						for _, c := range st.calls {
							if c.returned == 0 {
								return st.final(deadlock)
							}
						}
						return st.final("")
					}
				}},
			{Name: "d: after Close has returned: NewBatch, Snapshot, Get, ExecuteBatch(non-empty), ExecuteBatch(empty), NotifyMerger(sync)",
				Build: func() (*World, func() *Violation, func(string) []Violation) {
					w, st := c16World(Config{Backing: "store", MinMergePct: 100, MaxPre: 1})
					if w.infra != "" {
						return w, nil, st.final
					}
					var pre moss.Batch
					var empty moss.Batch
					st.spawn("user", func() {
						st.call("ExecuteBatch#before", func() (string, error) { return setBatch(w.coll, "k", "1") })
						pre, _ = w.coll.NewBatch(4, 64)
						pre.Set([]byte("late"), []byte("x"))
						empty, _ = w.coll.NewBatch(0, 0)
						st.call("Close#1", func() (string, error) { return "", w.coll.Close() })
						st.closed = st.ev
						w.closedColl = true
						st.call("NewBatch#after", func() (string, error) { _, err := w.coll.NewBatch(1, 1); return "", err })
						st.call("Snapshot#after", func() (string, error) { _, err := w.coll.Snapshot(); return "", err })
						st.call("Get#after", func() (string, error) { _, err := w.coll.Get([]byte("k"), moss.ReadOptions{}); return "", err })
						st.call("ExecuteBatch#after", func() (string, error) { return "", w.coll.ExecuteBatch(pre, moss.WriteOptions{}) })
						st.call("ExecuteEmptyBatch#after", func() (string, error) { return "", w.coll.ExecuteBatch(empty, moss.WriteOptions{}) })
						st.call("NotifyMerger#after", func() (string, error) {
							return "", w.coll.(interface{ NotifyMerger(string, bool) error }).NotifyMerger("x", true)
						})
					})
					return w, st.invariant, st.final
				}},
		}
		return progs
	}
	engines["C16"] = checkG2
}
