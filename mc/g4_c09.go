package main

import (
	"encoding/json"
	"fmt"
	"os"
	"sort"
	"strings"
	"time"

	"github.com/couchbase/moss"
)

// C09 - iterators enumerate the range in order and seek correctly (engine G4: small-scope enumeration).
//
// Space: (lower level variant) x (segment stack shape: every key of the universe in every segment is
// absent / Set / Del) x (pair of bounds) x (program over Next / Current / SeekTo(x)).
// Oracle: a cursor over the sorted slice of live keys.

type c09Family struct {
	Name       string   `json:"name"`
	Universe   []string `json:"universe"`
	Segs       int      `json:"segs"`
	Lower      string   `json:"lower"`  // none | map-full | map-part | store-full | store-part
	Bounds     []string `json:"bounds"` // "\x01" stands for nil
	Seeks      []string `json:"seeks"`
	ProgLen    int      `json:"proglen"`
	IndexQuota int      `json:"index_quota,omitempty"` // store-...-indexed: SegmentKeysIndexMaxBytes for the persisted segment
}

const nilMark = "\x01"

func c09Families(tier string) []c09Family {
	b8 := []string{nilMark, "", "a", "ab", "abc", "ac", "b", "c"}
	u5 := []string{"", "a", "ab", "abc", "b"}
	u4 := []string{"", "a", "ab", "b"}
	u3 := []string{"a", "ab", "b"}
	s5 := []string{"", "a", "ab", "b", "c"}
	s7 := []string{"", "a", "ab", "abc", "ac", "b", "c"}
	if tier == "thorough" {
		var fs []c09Family
		for _, lower := range []string{"none", "map-full", "map-part", "store-full", "store-part"} {
			fs = append(fs, c09Family{"1seg/" + lower, u5, 1, lower, b8, s7, 4, 0})
			fs = append(fs, c09Family{"2seg/" + lower, u5, 2, lower, b8, s5, 3, 0})
			fs = append(fs, c09Family{"3seg/" + lower, u3, 3, lower, b8, s5, 3, 0})
		}
		for q := 7; q <= 63; q += 7 {
			fs = append(fs, c09Family{fmt.Sprintf("1seg/store-indexed(q=%d)", q), u3, 1, "store-indexed", []string{nilMark, "", "a", "abc", "abd", "b", "bz", "c", "cd"}, []string{"", "ab", "abd", "b", "c", "cc", "d", "e"}, 3, q})
		}
		return fs
	}
	var fs []c09Family
	for _, lower := range []string{"none", "map-full", "store-part"} {
		fs = append(fs, c09Family{"1seg/" + lower, u5, 1, lower, b8, s7, 3, 0})
	}
	fs = append(fs, c09Family{"2seg/none", u4, 2, "none", b8, s5, 3, 0})
	fs = append(fs, c09Family{"2seg/map-full", u3, 2, "map-full", b8, s5, 3, 0})
	fs = append(fs, c09Family{"2seg/store-part", u3, 2, "store-part", b8, s5, 3, 0})
	fs = append(fs, c09Family{"3seg/none", u3, 3, "none", b8, s5, 2, 0})
	fs = append(fs, c09Family{"2seg/store-full", u3, 2, "store-full", b8, s5, 2, 0})
	for _, q := range []int{21, 28, 35, 42} {
		fs = append(fs, c09Family{fmt.Sprintf("1seg/store-indexed(q=%d)", q), u3, 1, "store-indexed", []string{nilMark, "", "a", "abc", "abd", "b", "bz", "c", "cd"}, []string{"", "ab", "abd", "b", "c", "cc", "d", "e"}, 2, q})
	}
	return fs
}

func (f *c09Family) numShapes() int {
	n := 1
	for i := 0; i < f.Segs*len(f.Universe); i++ {
		n *= 3
	}
	return n
}

type c09Job struct {
	Fam  c09Family `json:"fam"`
	From int       `json:"from"`
	To   int       `json:"to"`
}

type c09Res struct {
	Snapshots int         `json:"snapshots"`
	Programs  int         `json:"programs"`
	Calls     int         `json:"calls"`
	Distinct  int         `json:"distinct"` // distinct (live set, tombstone pattern) shapes with >= 1 tombstone or lower-level shadowing
	Viols     []Violation `json:"viols,omitempty"`
	Sample    string      `json:"sample,omitempty"`
	Infra     string      `json:"infra,omitempty"`
}

func init() {
	workerHandlers["c09"] = func(data json.RawMessage) (any, error) {
		var j c09Job
		if err := json.Unmarshal(data, &j); err != nil {
			return nil, err
		}
		return c09Run(j), nil
	}
	engines["C09"] = checkC09
}

func lowerContent(f *c09Family) map[string]string {
	m := map[string]string{}
	switch {
	case strings.HasSuffix(f.Lower, "-full"):
		for _, k := range f.Universe {
			m[k] = "L" + k
		}
		m["abd"] = "Labd" // a key that is never in the upper segments
	case strings.HasSuffix(f.Lower, "-indexed"):
		// uneven key lengths: with a small index quota the key index of the persisted segment is truncated
		for _, k := range []string{"", "a", "ab", "abc", "abcdefghijklmnop", "b", "c", "cc", "d"} {
			m[k] = "L" + k
		}
	case strings.HasSuffix(f.Lower, "-part"):
		m["a"] = "La"
		m["abc"] = "Labc"
	}
	return m
}

// c09Build creates the snapshot for one shape and returns the expected live (key,value) list.
func c09Build(f *c09Family, shape int) (w *World, ss moss.Snapshot, live [][2]string, hasTomb bool, infra string) {
	cfg := Config{Backing: "none", MinMergePct: 100, MaxPre: 10}
	lower := lowerContent(f)
	var alpha []*BatchSpec
	var path []string
	switch {
	case strings.HasPrefix(f.Lower, "map"):
		cfg.Backing = "map"
	case strings.HasPrefix(f.Lower, "store"):
		cfg.Backing = "store"
	}
	if strings.HasSuffix(f.Lower, "-indexed") {
		cfg.KeysIndexMax, cfg.KeysIndexMin = f.IndexQuota, 1
	}
	if cfg.Backing == "store" {
		b := &BatchSpec{}
		ks := make([]string, 0, len(lower))
		for k := range lower {
			ks = append(ks, k)
		}
		sort.Strings(ks)
		for _, k := range ks {
			b.Ops = append(b.Ops, Op{Kind: 'S', Key: k, Val: lower[k]})
		}
		alpha = append(alpha, b)
		path = append(path, "B0", "M", "Pb", "Pe")
	}
	content := map[string]string{}
	for k, v := range lower {
		content[k] = v
	}
	x := shape
	for s := 0; s < f.Segs; s++ {
		b := &BatchSpec{}
		for _, k := range f.Universe {
			switch x % 3 {
			case 1:
				v := fmt.Sprintf("s%d%s", s, k)
				b.Ops = append(b.Ops, Op{Kind: 'S', Key: k, Val: v})
				content[k] = v
			case 2:
				b.Ops = append(b.Ops, Op{Kind: 'D', Key: k})
				delete(content, k)
				hasTomb = true
			}
			x /= 3
		}
		if len(b.Ops) == 0 {
			continue // an empty batch creates no segment
		}
		alpha = append(alpha, b)
		path = append(path, fmt.Sprintf("B%d", len(alpha)-1))
	}
	w = NewWorld(cfg, alpha)
	if cfg.Backing == "map" {
		// the map lower level starts with the given content
		w.Teardown()
		w = newWorldWithLL(cfg, alpha, lower)
	}
	if w.infra != "" {
		return w, nil, nil, false, w.infra
	}
	for _, st := range path {
		if !w.Step(st) || w.infra != "" {
			return w, nil, nil, false, "build step " + st + " failed: " + w.infra
		}
	}
	var err error
	ss, err = w.coll.Snapshot()
	if err != nil {
		return w, nil, nil, false, "snapshot: " + err.Error()
	}
	ks := make([]string, 0, len(content))
	for k := range content {
		ks = append(ks, k)
	}
	sort.Strings(ks)
	for _, k := range ks {
		live = append(live, [2]string{k, content[k]})
	}
	return w, ss, live, hasTomb, ""
}

func newWorldWithLL(cfg Config, alpha []*BatchSpec, ll map[string]string) *World {
	w := &World{cfg: cfg, alpha: alpha, ll: map[string]string{}, mains: map[int]bool{}, probes: probeKeys}
	for k, v := range ll {
		w.ll[k] = v
	}
	m := NewNode()
	for k, v := range ll {
		m.KV[k] = v
	}
	w.models = []*Node{m}
	w.s = newSched(cfg)
	w.open()
	return w
}

type c09Call struct {
	op   byte // 'N' next, 'C' current, 'S' seek
	seek string
}

func c09Programs(f *c09Family) [][]c09Call {
	var calls []c09Call
	calls = append(calls, c09Call{op: 'N'}, c09Call{op: 'C'})
	for _, s := range f.Seeks {
		calls = append(calls, c09Call{op: 'S', seek: s})
	}
	progs := [][]c09Call{{}}
	frontier := [][]c09Call{{}}
	for l := 0; l < f.ProgLen; l++ {
		var next [][]c09Call
		for _, p := range frontier {
			for _, c := range calls {
				q := append(append([]c09Call{}, p...), c)
				next = append(next, q)
			}
		}
		progs = append(progs, next...)
		frontier = next
	}
	return progs
}

func boundOf(s string) []byte {
	if s == nilMark {
		return nil
	}
	return []byte(s)
}

func fmtBound(s string) string {
	if s == nilMark {
		return "nil"
	}
	return fmt.Sprintf("%q", s)
}

// c09Model is the sorted-slice cursor.
type c09Model struct {
	in  [][2]string // live entries within [start,end)
	pos int
}

func c09Run(j c09Job) (res c09Res) {
	f := &j.Fam
	progs := c09Programs(f)
	errStr := func(e error) string {
		if e == nil {
			return "nil"
		}
		if e == moss.ErrIteratorDone {
			return "done"
		}
		return "ERR:" + e.Error()
	}
	for shape := j.From; shape < j.To; shape++ {
		w, ss, live, hasTomb, infra := c09Build(f, shape)
		if infra != "" {
			res.Infra = infra
			w.Teardown()
			return
		}
		res.Snapshots++
		if hasTomb {
			res.Distinct++
		}
		func() {
			defer func() {
				if r := recover(); r != nil {
					res.Viols = append(res.Viols, Violation{Prop: "C09", Sig: "panic|iterator|any", Msg: fmt.Sprintf("panic while iterating shape %d of %s: %v", shape, f.Name, r)})
				}
			}()
			for _, bs := range f.Bounds {
				for _, be := range f.Bounds {
					start, end := boundOf(bs), boundOf(be)
					var in [][2]string
					for _, e := range live {
						if (start == nil || e[0] >= string(start)) && (end == nil || e[0] < string(end)) {
							in = append(in, e)
						}
					}
					for _, prog := range progs {
						res.Programs++
						it, err := ss.StartIterator(start, end, moss.IteratorOptions{})
						if err != nil || it == nil {
							res.Viols = append(res.Viols, Violation{Prop: "C09", Sig: "start-error|iterator|any", Msg: fmt.Sprintf("StartIterator(%s,%s) = %v, %v", fmtBound(bs), fmtBound(be), it, err)})
							return
						}
						pos := 0
						ncalls := 0
						check := func(call string, kind string, gotK, gotV []byte, gotErr error, hasKV bool, wantErr string) bool {
							res.Calls++
							wantK, wantV := "", ""
							if pos < len(in) {
								wantK, wantV = in[pos][0], in[pos][1]
							}
							ok := errStr(gotErr) == wantErr
							if ok && hasKV && wantErr == "nil" {
								ok = string(gotK) == wantK && string(gotV) == wantV
							}
							if !ok {
								trace := []string{"Start"}
								for ci, c := range prog {
									if ci >= ncalls {
										break
									}
									switch c.op {
									case 'N':
										trace = append(trace, "Next")
									case 'C':
										trace = append(trace, "Current")
									case 'S':
										trace = append(trace, fmt.Sprintf("SeekTo(%q)", c.seek))
									}
								}
								trace = append(trace, "-> "+call)
								exp := wantErr
								if hasKV && wantErr == "nil" {
									exp = fmt.Sprintf("%q=%q", wantK, wantV)
								}
								got := errStr(gotErr)
								if hasKV && gotErr == nil {
									got = fmt.Sprintf("%q=%q", gotK, gotV)
								}
								if len(res.Viols) < 8 {
									res.Viols = append(res.Viols, Violation{Prop: "C09", Sig: "iter-divergence|" + kind + "|any",
										Msg: fmt.Sprintf("family %s shape %d (%s), range [%s,%s), calls %v: last call returned %s, expected %s (live in range: %v)",
											f.Name, shape, describeShape(f, shape), fmtBound(bs), fmtBound(be), trace, got, exp, in)})
								}
							}
							return ok
						}
						curWant := func() string {
							if pos < len(in) {
								return "nil"
							}
							return "done"
						}
						k, v, e := it.Current()
						ok := check("Start", "start", k, v, e, true, curWant())
						for _, c := range prog {
							if !ok {
								break
							}
							ncalls++
							switch c.op {
							case 'C':
								k, v, e := it.Current()
								kind := "current"
								if pos >= len(in) {
									kind = "after-done"
								}
								ok = check("Current", kind, k, v, e, true, curWant())
							case 'N':
								e := it.Next()
								kind := "next"
								if pos >= len(in) {
									kind = "after-done"
								}
								if pos < len(in) {
									pos++
								}
								ok = check("Next", kind, nil, nil, e, false, curWant())
								if ok {
									k, v, e := it.Current()
									ok = check("Current", kind, k, v, e, true, curWant())
								}
							case 'S':
								kind := "seekto-forward"
								if pos >= len(in) {
									kind = "seekto-after-done"
								} else if c.seek < in[pos][0] {
									kind = "seekto-backward"
								}
								e := it.SeekTo([]byte(c.seek))
								pos = sort.Search(len(in), func(i int) bool { return in[i][0] >= c.seek })
								ok = check("SeekTo", kind, nil, nil, e, false, curWant())
								if ok {
									k, v, e := it.Current()
									ok = check("Current", kind, k, v, e, true, curWant())
								}
							}
						}
						it.Close()
						if !ok && len(res.Viols) >= 8 {
							return
						}
					}
				}
			}
		}()
		if res.Sample == "" {
			res.Sample = fmt.Sprintf("family %s shape %d: %s; live=%v; %d bound pairs x %d programs (e.g. %v)", f.Name, shape, describeShape(f, shape), live, len(f.Bounds)*len(f.Bounds), len(progs), progs[len(progs)-1])
		}
		ss.Close()
		w.Teardown()
		if len(res.Viols) >= 8 {
			return
		}
	}
	return
}

func describeShape(f *c09Family, shape int) string {
	var sb strings.Builder
	x := shape
	for s := 0; s < f.Segs; s++ {
		fmt.Fprintf(&sb, "seg%d{", s)
		for _, k := range f.Universe {
			switch x % 3 {
			case 1:
				fmt.Fprintf(&sb, "Set %q;", k)
			case 2:
				fmt.Fprintf(&sb, "Del %q;", k)
			}
			x /= 3
		}
		sb.WriteString("} ")
	}
	sb.WriteString("lower=" + f.Lower)
	return sb.String()
}

func checkC09(prop, tier string) int {
	t0 := time.Now()
	fams := c09Families(tier)
	var jobs []Job
	type meta struct {
		fam string
	}
	var metas []meta
	for _, f := range fams {
		n := f.numShapes()
		chunk := 40
		if strings.HasPrefix(f.Lower, "store") {
			chunk = 20
		}
		for from := 0; from < n; from += chunk {
			to := from + chunk
			if to > n {
				to = n
			}
			jobs = append(jobs, Job{Kind: "c09", Data: mustJSON(c09Job{Fam: f, From: from, To: to})})
			metas = append(metas, meta{f.Name})
		}
	}
	pool := NewPool()
	pool.Recycle = 50
	pool.Deadline = time.Now().Add(g4Deadline(tier))
	results := pool.Run(jobs)
	skippedByDeadline := countSkipped(results)
	var tot c09Res
	infra := 0
	perFam := map[string]int{}
	known := map[string]int{}
	findings := loadFindings()
	var viols []Violation
	seenSig := map[string]bool{}
	var samples []any
	for i, r := range results {
		if r.Crashed || r.Err != "" {
			if v := crashViolation(pool, "C09", jobs[i], r); v != nil {
				viols = append(viols, *v)
				continue
			}
			infra++
			fmt.Fprintf(os.Stderr, "INFRA: c09 job %d (%s): %s %s\n", i, metas[i].fam, r.Err, tail(r.Stderr, 500))
			continue
		}
		var cr c09Res
		json.Unmarshal(r.Data, &cr)
		if cr.Infra != "" {
			infra++
			fmt.Fprintf(os.Stderr, "INFRA: c09 job %d (%s): %s\n", i, metas[i].fam, cr.Infra)
		}
		tot.Snapshots += cr.Snapshots
		tot.Programs += cr.Programs
		tot.Calls += cr.Calls
		tot.Distinct += cr.Distinct
		perFam[metas[i].fam] += cr.Snapshots
		if cr.Sample != "" && len(samples) < 5 && i%(len(results)/5+1) == 0 {
			samples = append(samples, cr.Sample)
		}
		for _, v := range cr.Viols {
			matched := false
			for _, f := range findings {
				if f.Status == "open" && f.Property == "C09" && f.Signature == v.Sig {
					known[f.ID]++
					matched = true
				}
			}
			if !matched && !seenSig[v.Sig] {
				seenSig[v.Sig] = true
				viols = append(viols, v)
			}
		}
	}
	if len(samples) == 0 {
		samples = append(samples, "no sample")
	}
	for _, f := range findings {
		if f.Status == "open" && f.Property == "C09" && known[f.ID] > 0 {
			fmt.Printf("KNOWN-FINDING: property=C09 %s (%s; %d occurrences)\n", f.What, f.ID, known[f.ID])
		}
	}
	for _, v := range viols {
		p := writeReplay("C09", map[string]any{"property": "C09", "engine": "G4", "signature": v.Sig, "message": v.Msg})
		fmt.Printf("VIOLATION property=C09 replay=%s\n", p)
		fmt.Fprintln(os.Stderr, "  "+v.Msg)
	}
	famNames := []string{}
	for _, f := range fams {
		famNames = append(famNames, fmt.Sprintf("%s: universe=%q segs=%d shapes=%d bounds=%d seeks=%d proglen<=%d", f.Name, f.Universe, f.Segs, f.numShapes(), len(f.Bounds)*len(f.Bounds), len(f.Seeks), f.ProgLen))
	}
	writeEvidence(&Evidence{PropertyID: "C09", Tier: tier, Violations: len(viols), WallS: time.Since(t0).Seconds(), Assumptions: commonAssumptions,
		Coverage: map[string]any{
			"states":                        tot.Snapshots,
			"transitions":                   tot.Calls,
			"traces_validated_against_impl": tot.Programs,
			"evaluations":                   tot.Programs,
			"distinct_nontrivial":           tot.Distinct,
			"rule":                          "small-scope enumeration: every segment-stack shape (each key of the universe absent/Set/Del in each segment) x lower-level variant x every pair of bounds x every program over {Next, Current, SeekTo(x)} up to the stated length, run on real snapshots built through the public API; states = snapshots built, transitions = iterator calls compared with the sorted-slice cursor, distinct_nontrivial = snapshot shapes containing at least one tombstone",
			"samples":                       samples,
			"exhaustive":                    infra == 0 && skippedByDeadline == 0,
			"cap_hit":                       fmt.Sprintf("%d of %d jobs skipped by the deadline of %v", skippedByDeadline, len(jobs), g4Deadline(tier)),
			"families":                      famNames,
			"snapshots_per_family":          perFam,
			"known_findings_hit":            known,
			"infrastructure_errors":         infra,
			"bound_completed":               map[string]any{"families": len(fams)},
		}})
	fmt.Fprintf(os.Stderr, "[C09 %s] snapshots=%d programs=%d calls=%d violations=%d known=%v infra=%d wall=%.1fs\n", tier, tot.Snapshots, tot.Programs, tot.Calls, len(viols), known, infra, time.Since(t0).Seconds())
	if len(viols) > 0 {
		return 1
	}
	if infra > 0 && tot.Snapshots == 0 {
		return 2
	}
	return 0
}
