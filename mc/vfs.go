package main

import (
	"errors"
	"fmt"
	"os"
	"path/filepath"
	"strings"

	"github.com/couchbase/moss"
)

// vfs is the file layer handed to moss through the public StoreOptions.OpenFile seam.
// It wraps real files (mmap keeps working), records every operation and injects faults on demand.

type vfsOp struct {
	Kind  string // create | open | write | sync | stat | close | unlink | trunc | mark
	File  string // base name
	Off   int64
	Len   int
	Data  []byte
	Flags int
	Mark  int // for Kind=="mark": reference prefix acknowledged as durable (-1: none)
	Note  string
}

func (o vfsOp) String() string {
	switch o.Kind {
	case "write":
		return fmt.Sprintf("write %s @%d +%d", o.File, o.Off, o.Len)
	case "mark":
		return fmt.Sprintf("ack(prefix %d)", o.Mark)
	}
	return o.Kind + " " + o.File
}

// faultSpec: starting with the Ordinal-th operation of (File, Kind) fail Count consecutive matching operations.
// File "*" matches every file.  Mode: err | short-err | short-nil.
type faultSpec struct {
	File    string `json:"file"`
	Kind    string `json:"kind"`
	Ordinal int    `json:"ordinal"`
	Count   int    `json:"count"` // -1: until healed
	Mode    string `json:"mode"`
	Short   int    `json:"short"` // bytes actually written by a short write
}

func (f faultSpec) String() string {
	return fmt.Sprintf("%s#%d of %s: %s x%d (short=%d)", f.Kind, f.Ordinal, f.File, f.Mode, f.Count, f.Short)
}

var errVfsInjected = errors.New("verif: injected I/O failure")

type VFS struct {
	Ops      []vfsOp
	Record   bool
	Fault    *faultSpec
	counts   map[string]int
	Injected int
	Healed   bool
	// Suspended: the fault plan is not applied (and its operation counters do not advance) - set while an oracle
	// opens a *copy* of the directory, whose file operations are not part of the history under test.
	Suspended bool
	OnOp      func(kind, file string)
}

func newVFS() *VFS { return &VFS{counts: map[string]int{}, Record: true} }

func (v *VFS) rec(op vfsOp) {
	if v.Record {
		v.Ops = append(v.Ops, op)
	}
}

// Mark appends an acknowledgement marker to the trace.
func (v *VFS) Mark(p int, dump string) { v.rec(vfsOp{Kind: "mark", Mark: p, Note: dump}) }

// shouldFail decides whether this operation is hit by the fault plan: the matching operations
// (same kind, same file or any file for "*") number Ordinal .. Ordinal+Count-1 fail.
func (v *VFS) shouldFail(kind, file string) bool {
	f := v.Fault
	if v.Suspended {
		return false
	}
	if f == nil || f.Kind != kind || (f.File != "*" && f.File != file) {
		return false
	}
	idx := v.counts[kind]
	v.counts[kind] = idx + 1
	if v.Healed {
		return false
	}
	if idx >= f.Ordinal && (f.Count < 0 || idx < f.Ordinal+f.Count) {
		v.Injected++
		return true
	}
	return false
}

func (v *VFS) OpenFile(name string, flag int, perm os.FileMode) (moss.File, error) {
	base := filepath.Base(name)
	kind := "open"
	if flag&os.O_CREATE != 0 {
		kind = "create"
	}
	if v.OnOp != nil {
		v.OnOp(kind, base)
	}
	if v.shouldFail(kind, base) {
		return nil, errVfsInjected
	}
	f, err := os.OpenFile(name, flag, perm)
	if err != nil {
		return nil, err
	}
	v.rec(vfsOp{Kind: kind, File: base, Flags: flag})
	return &vfile{v: v, f: f, name: base}, nil
}

type vfile struct {
	v    *VFS
	f    *os.File
	name string
}

func (f *vfile) OsFile() *os.File { return f.f }

func (f *vfile) ReadAt(p []byte, off int64) (int, error) { return f.f.ReadAt(p, off) }

func (f *vfile) WriteAt(p []byte, off int64) (int, error) {
	if f.v.OnOp != nil {
		f.v.OnOp("write", f.name)
	}
	if f.v.shouldFail("write", f.name) {
		sp := f.v.Fault
		switch sp.Mode {
		case "short-err", "short-nil":
			k := sp.Short
			if k > len(p) {
				k = len(p) / 2
			}
			n, _ := f.f.WriteAt(p[:k], off)
			f.v.rec(vfsOp{Kind: "write", File: f.name, Off: off, Len: n, Data: append([]byte(nil), p[:n]...), Note: "short"})
			if sp.Mode == "short-err" {
				return n, errVfsInjected
			}
			return n, nil
		}
		return 0, errVfsInjected
	}
	n, err := f.f.WriteAt(p, off)
	f.v.rec(vfsOp{Kind: "write", File: f.name, Off: off, Len: n, Data: append([]byte(nil), p[:n]...)})
	return n, err
}

func (f *vfile) Close() error {
	f.v.rec(vfsOp{Kind: "close", File: f.name})
	return f.f.Close()
}

func (f *vfile) Stat() (os.FileInfo, error) {
	if f.v.OnOp != nil {
		f.v.OnOp("stat", f.name)
	}
	if f.v.shouldFail("stat", f.name) {
		return nil, errVfsInjected
	}
	f.v.rec(vfsOp{Kind: "stat", File: f.name})
	return f.f.Stat()
}

func (f *vfile) Sync() error {
	if f.v.OnOp != nil {
		f.v.OnOp("sync", f.name)
	}
	if f.v.shouldFail("sync", f.name) {
		return errVfsInjected
	}
	f.v.rec(vfsOp{Kind: "sync", File: f.name})
	return f.f.Sync()
}

func (f *vfile) Truncate(size int64) error {
	f.v.rec(vfsOp{Kind: "trunc", File: f.name, Off: size})
	return f.f.Truncate(size)
}

// opIdentities lists the distinct (file, kind, ordinal) identities of a fault-free trace, in trace order.
func opIdentities(ops []vfsOp) []faultSpec {
	cnt := map[string]int{}
	var out []faultSpec
	for _, o := range ops {
		switch o.Kind {
		case "write", "sync", "create", "open", "stat":
			key := o.Kind + "|" + o.File
			out = append(out, faultSpec{File: o.File, Kind: o.Kind, Ordinal: cnt[key]})
			cnt[key]++
		}
	}
	return out
}

func isDataFile(name string) bool {
	return strings.HasPrefix(name, "data-") && strings.HasSuffix(name, ".moss")
}
