package main

import (
	"sort"

	"github.com/couchbase/moss"
)

// mapSnapshot is the application-supplied lower level used by the "map" backing:
// an immutable sorted map implementing moss.Snapshot.
type mapSnapshot struct {
	kv     map[string]string
	closed int
}

func newMapSnapshot(kv map[string]string) *mapSnapshot {
	c := map[string]string{}
	for k, v := range kv {
		c[k] = v
	}
	return &mapSnapshot{kv: c}
}

func (l *mapSnapshot) Close() error { l.closed++; return nil }

func (l *mapSnapshot) Get(k []byte, ro moss.ReadOptions) ([]byte, error) {
	v, ok := l.kv[string(k)]
	if !ok {
		return nil, nil
	}
	return append(make([]byte, 0, len(v)), v...), nil
}

func (l *mapSnapshot) ChildCollectionNames() ([]string, error) { return nil, nil }

func (l *mapSnapshot) ChildCollectionSnapshot(string) (moss.Snapshot, error) { return nil, nil }

func (l *mapSnapshot) StartIterator(s, e []byte, o moss.IteratorOptions) (moss.Iterator, error) {
	ks := make([]string, 0, len(l.kv))
	for k := range l.kv {
		if (s == nil || k >= string(s)) && (e == nil || k < string(e)) {
			ks = append(ks, k)
		}
	}
	sort.Strings(ks)
	return &mapIter{l: l, ks: ks}, nil
}

type mapIter struct {
	l   *mapSnapshot
	ks  []string
	pos int
}

func (i *mapIter) Close() error { return nil }

func (i *mapIter) Next() error {
	if i.pos < len(i.ks) {
		i.pos++
	}
	if i.pos >= len(i.ks) {
		return moss.ErrIteratorDone
	}
	return nil
}

func (i *mapIter) SeekTo(k []byte) error {
	i.pos = sort.SearchStrings(i.ks, string(k))
	if i.pos >= len(i.ks) {
		return moss.ErrIteratorDone
	}
	return nil
}

func (i *mapIter) Current() ([]byte, []byte, error) {
	if i.pos >= len(i.ks) {
		return nil, nil, moss.ErrIteratorDone
	}
	return []byte(i.ks[i.pos]), []byte(i.l.kv[i.ks[i.pos]]), nil
}

func (i *mapIter) CurrentEx() (moss.EntryEx, []byte, []byte, error) {
	k, v, err := i.Current()
	if err != nil {
		return moss.EntryEx{}, nil, nil, err
	}
	return moss.EntryEx{Operation: moss.OperationSet}, k, v, nil
}

// applyHigher applies `higher` to a copy of kv by the documented write-back protocol:
// iterate with IncludeDeletions + SkipLowerLevel; Set/Del applied; Merge entries resolved with higher.Get.
// It also returns the list of entries that were handed down (for the delivery oracle of C13).
func applyHigher(kv map[string]string, higher moss.Snapshot) (map[string]string, []Op, error) {
	nk := map[string]string{}
	for k, v := range kv {
		nk[k] = v
	}
	var handed []Op
	it, err := higher.StartIterator(nil, nil, moss.IteratorOptions{IncludeDeletions: true, SkipLowerLevel: true})
	if err != nil {
		return nil, nil, err
	}
	if it == nil {
		return nk, nil, nil
	}
	defer it.Close()
	for {
		ex, k, v, err := it.CurrentEx()
		if err == moss.ErrIteratorDone {
			break
		}
		if err != nil {
			return nil, nil, err
		}
		switch ex.Operation {
		case moss.OperationDel:
			delete(nk, string(k))
			handed = append(handed, Op{Kind: 'D', Key: string(k)})
		case moss.OperationSet:
			nk[string(k)] = string(v)
			handed = append(handed, Op{Kind: 'S', Key: string(k), Val: string(v)})
		case moss.OperationMerge:
			mv, err := higher.Get(k, moss.ReadOptions{})
			if err != nil {
				return nil, nil, err
			}
			if mv == nil {
				delete(nk, string(k))
			} else {
				nk[string(k)] = string(mv)
			}
			handed = append(handed, Op{Kind: 'M', Key: string(k), Val: string(v)})
		}
		err = it.Next()
		if err == moss.ErrIteratorDone {
			break
		}
		if err != nil {
			return nil, nil, err
		}
	}
	return nk, handed, nil
}
