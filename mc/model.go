package main

import (
	"encoding/json"
	"fmt"
	"sort"
	"strings"
	vs "vsched"

	"github.com/couchbase/moss"
)

// ---------------------------------------------------------------- reference model

// Node is the reference model of one collection: an ordered map plus child collections.
type Node struct {
	KV   map[string]string // present keys; values may be ""
	Kids map[string]*Node
}

func NewNode() *Node { return &Node{KV: map[string]string{}, Kids: map[string]*Node{}} }

func (n *Node) Clone() *Node {
	c := NewNode()
	for k, v := range n.KV {
		c.KV[k] = v
	}
	for k, v := range n.Kids {
		c.Kids[k] = v.Clone()
	}
	return c
}

// Op is one mutation of a batch.
type Op struct {
	Kind  byte   `json:"k"` // 'S' set, 'D' del, 'M' merge
	Key   string `json:"key"`
	Val   string `json:"val"`
	Alloc bool   `json:"alloc,omitempty"` // build this op with Alloc + AllocSet/AllocDel/AllocMerge
}

// MarshalJSON renders the operation kind as a letter.
func (o Op) MarshalJSON() ([]byte, error) {
	type alias struct {
		Kind  string `json:"k"`
		Key   string `json:"key"`
		Val   string `json:"val,omitempty"`
		Alloc bool   `json:"alloc,omitempty"`
	}
	v := o.Val
	if len(v) > 40 {
		v = fmt.Sprintf("%s...(%d bytes)", v[:16], len(v))
	}
	return json.Marshal(alias{string(rune(o.Kind)), o.Key, v, o.Alloc})
}

// BatchSpec is a batch: operations on this collection plus child batches / child deletions.
type BatchSpec struct {
	Ops      []Op                  `json:"ops,omitempty"`
	Kids     map[string]*BatchSpec `json:"kids,omitempty"`
	DelKids  []string              `json:"delkids,omitempty"`
	UseAlloc bool                  `json:"alloc,omitempty"`
	// AllocStyle (with the Alloc* API): "" - every entry is allocated and added at once; "arena" - one Alloc for the bytes
	// of all entries, carved into keys and values, then the Alloc* calls; "all-first" - the Alloc calls of all entries,
	// then the Alloc* calls.  All three are uses the API documents (an entry may be added any time after its bytes were
	// allocated from the same batch).
	AllocStyle string `json:"alloc_style,omitempty"`
}

// keepOperand is a merge operand that leaves the existing value (or absence) unchanged; the operator then
// returns the existing slice itself, which is what operators like "max" or "keep first" do.
const keepOperand = "="

// mergeFold is the harness's order-sensitive merge operator: existing + ":" + operand.
func mergeFold(existing *string, operand string) string {
	if existing == nil {
		return "^:" + operand
	}
	return *existing + ":" + operand
}

// Apply applies a batch to the model (keys unique per batch, child names unique per batch).
func (n *Node) Apply(b *BatchSpec) {
	for _, o := range b.Ops {
		switch o.Kind {
		case 'S':
			n.KV[o.Key] = o.Val
		case 'D':
			delete(n.KV, o.Key)
		case 'M':
			if o.Val == keepOperand {
				if _, ok := n.KV[o.Key]; !ok {
					n.KV[o.Key] = "^"
				}
				break
			}
			if v, ok := n.KV[o.Key]; ok {
				n.KV[o.Key] = mergeFold(&v, o.Val)
			} else {
				n.KV[o.Key] = mergeFold(nil, o.Val)
			}
		}
	}
	for _, name := range b.DelKids {
		delete(n.Kids, name)
	}
	for name, cb := range b.Kids {
		c, ok := n.Kids[name]
		if !ok {
			c = NewNode()
			n.Kids[name] = c
		}
		c.Apply(cb)
	}
}

// appendMergeOperator is handed to moss as CollectionOptions.MergeOperator.
// Yield: every FullMerge call is a scheduling point (label "merge-op") when it runs in a scheduled thread - a user
// callback in the middle of the merger's (or persister's) work, with no moss lock held.
type appendMergeOperator struct{ Yield bool }

func (appendMergeOperator) Name() string { return "verif-append" }
func (o appendMergeOperator) FullMerge(key, existing []byte, operands [][]byte) ([]byte, bool) {
	if o.Yield {
		vs.Yield("merge-op")
	}
	var cur *string
	if existing != nil {
		s := string(existing)
		cur = &s
	}
	changed := false
	for _, o := range operands {
		if string(o) == keepOperand {
			continue // "keep what is there": the operator hands back the existing value itself
		}
		s := mergeFold(cur, string(o))
		cur = &s
		changed = true
	}
	if !changed {
		if existing == nil {
			return []byte("^"), true // nothing to keep: the operator never returns nil
		}
		return existing, true // the very slice it was given (like a "max" operator returning its input)
	}
	return []byte(*cur), true
}
func (appendMergeOperator) PartialMerge(key, l, r []byte) ([]byte, bool) {
	return []byte(string(l) + ":" + string(r)), true
}

// ---------------------------------------------------------------- dumps

// probeKeys are looked up with Get in every dump (alphabet keys + absent probes).
var probeKeys = []string{"", "a", "b", "c", "zz", "a\x00"}

func fmtVal(v []byte) string {
	if v == nil {
		return "nil"
	}
	if len(v) > 40 {
		return fmt.Sprintf("#%d:%x", len(v), hashBytes(v))
	}
	return fmt.Sprintf("%q", string(v))
}

func hashBytes(b []byte) uint64 {
	h := uint64(14695981039346656037)
	for _, c := range b {
		h ^= uint64(c)
		h *= 1099511628211
	}
	return h
}

// DumpT is the structured form of a dump: what the public read API shows.
type DumpT struct {
	Iter [][2]string       // (key, rendered value) in iteration order
	Get  [][2]string       // (probe key, rendered value or "nil")
	Kids map[string]*DumpT // child collections by name
	Errs []string          // errors / irregularities met while reading
}

func (d *DumpT) String() string {
	var sb strings.Builder
	d.write(&sb)
	return sb.String()
}

func (d *DumpT) write(sb *strings.Builder) {
	sb.WriteString("iter[")
	for _, kv := range d.Iter {
		fmt.Fprintf(sb, "%q=%s,", kv[0], kv[1])
	}
	sb.WriteString("]get{")
	for _, kv := range d.Get {
		fmt.Fprintf(sb, "%q:%s,", kv[0], kv[1])
	}
	sb.WriteString("}kids{")
	names := make([]string, 0, len(d.Kids))
	for k := range d.Kids {
		names = append(names, k)
	}
	sort.Strings(names)
	for _, name := range names {
		fmt.Fprintf(sb, "%s:<", name)
		d.Kids[name].write(sb)
		sb.WriteString(">")
	}
	sb.WriteString("}")
	for _, e := range d.Errs {
		sb.WriteString("!" + e)
	}
}

// DumpT renders the model node.
func (n *Node) DumpT(probes []string) *DumpT {
	d := &DumpT{Kids: map[string]*DumpT{}}
	keys := make([]string, 0, len(n.KV))
	for k := range n.KV {
		keys = append(keys, k)
	}
	sort.Strings(keys)
	for _, k := range keys {
		d.Iter = append(d.Iter, [2]string{k, fmtVal([]byte(n.KV[k]))})
	}
	for _, k := range probes {
		if v, ok := n.KV[k]; ok {
			d.Get = append(d.Get, [2]string{k, fmtVal([]byte(v))})
		} else {
			d.Get = append(d.Get, [2]string{k, "nil"})
		}
	}
	for name, c := range n.Kids {
		d.Kids[name] = c.DumpT(probes)
	}
	return d
}

// Dump renders the model node in the canonical dump format.
func (n *Node) Dump(probes []string) string { return n.DumpT(probes).String() }

// DiffDumps classifies the first difference between an expected and an observed dump.
// The class is part of violation signatures; detail is human readable.
func DiffDumps(exp, got *DumpT, where string) (class, detail string) {
	if len(got.Errs) > 0 {
		return "read-error", fmt.Sprintf("%s: errors while reading: %v", where, got.Errs)
	}
	em := map[string]string{}
	for _, kv := range exp.Iter {
		em[kv[0]] = kv[1]
	}
	gm := map[string]string{}
	for i, kv := range got.Iter {
		if _, dup := gm[kv[0]]; dup {
			return "iter-duplicate-key", fmt.Sprintf("%s: iteration yields key %q twice", where, kv[0])
		}
		if i > 0 && got.Iter[i-1][0] >= kv[0] {
			return "iter-order", fmt.Sprintf("%s: iteration out of order at %q", where, kv[0])
		}
		gm[kv[0]] = kv[1]
	}
	for _, kv := range exp.Iter {
		g, ok := gm[kv[0]]
		if !ok {
			return "iter-missing-key", fmt.Sprintf("%s: iteration misses live key %q (expected value %s)", where, kv[0], kv[1])
		}
		if g != kv[1] {
			return "iter-wrong-value", fmt.Sprintf("%s: iteration yields %q=%s, expected %s", where, kv[0], g, kv[1])
		}
	}
	for _, kv := range got.Iter {
		if _, ok := em[kv[0]]; !ok {
			return "iter-extra-key", fmt.Sprintf("%s: iteration yields %q=%s which the reference does not hold", where, kv[0], kv[1])
		}
	}
	for i, kv := range exp.Get {
		if i >= len(got.Get) {
			break
		}
		g := got.Get[i][1]
		if g != kv[1] {
			switch {
			case g == "nil":
				return "get-nil-for-present", fmt.Sprintf("%s: Get(%q) = nil, expected %s", where, kv[0], kv[1])
			case kv[1] == "nil":
				return "get-value-for-absent", fmt.Sprintf("%s: Get(%q) = %s, expected nil", where, kv[0], g)
			default:
				return "get-wrong-value", fmt.Sprintf("%s: Get(%q) = %s, expected %s", where, kv[0], g, kv[1])
			}
		}
	}
	for name, ec := range exp.Kids {
		gc, ok := got.Kids[name]
		if !ok {
			return "child-missing", fmt.Sprintf("%s: child collection %q is not listed", where, name)
		}
		if c, d := DiffDumps(ec, gc, where+"/"+name); c != "" {
			return "child:" + c, d
		}
	}
	for name := range got.Kids {
		if _, ok := exp.Kids[name]; !ok {
			return "child-extra", fmt.Sprintf("%s: child collection %q is listed but does not exist in the reference", where, name)
		}
	}
	return "", ""
}

// DumpSnapshot renders a moss snapshot through the public API only.
// Any error or irregularity is recorded so that it shows up as a difference.
func DumpSnapshot(ss moss.Snapshot, probes []string) *DumpT {
	return dumpSnapshot(ss, probes, 0)
}

func dumpSnapshot(ss moss.Snapshot, probes []string, depth int) *DumpT {
	d := &DumpT{Kids: map[string]*DumpT{}}
	it, err := ss.StartIterator(nil, nil, moss.IteratorOptions{})
	if err != nil {
		d.Errs = append(d.Errs, "StartIterator: "+err.Error())
	} else if it != nil {
		for n := 0; ; n++ {
			k, v, err := it.Current()
			if err == moss.ErrIteratorDone {
				break
			}
			if err != nil {
				d.Errs = append(d.Errs, "Current: "+err.Error())
				break
			}
			vv := v
			if vv == nil {
				vv = []byte{} // nil-ness of iteration values is not part of the contract
			}
			d.Iter = append(d.Iter, [2]string{string(k), fmtVal(vv)})
			if n > 10000 {
				d.Errs = append(d.Errs, "runaway iteration")
				break
			}
			err = it.Next()
			if err == moss.ErrIteratorDone {
				break
			}
			if err != nil {
				d.Errs = append(d.Errs, "Next: "+err.Error())
				break
			}
		}
		it.Close()
	}
	for _, k := range probes {
		v, err := ss.Get([]byte(k), moss.ReadOptions{})
		if err != nil {
			d.Errs = append(d.Errs, fmt.Sprintf("Get(%q): %v", k, err))
			d.Get = append(d.Get, [2]string{k, "ERR"})
		} else {
			d.Get = append(d.Get, [2]string{k, fmtVal(v)})
		}
	}
	names, err := ss.ChildCollectionNames()
	if err != nil {
		d.Errs = append(d.Errs, "ChildCollectionNames: "+err.Error())
	}
	if depth < 4 {
		for _, name := range names {
			if _, dup := d.Kids[name]; dup {
				d.Errs = append(d.Errs, "child listed twice: "+name)
				continue
			}
			cs, err := ss.ChildCollectionSnapshot(name)
			if err != nil {
				d.Errs = append(d.Errs, "ChildCollectionSnapshot: "+err.Error())
			} else if cs == nil {
				d.Errs = append(d.Errs, "listed child has nil snapshot: "+name)
			} else {
				d.Kids[name] = dumpSnapshot(cs, probes, depth+1)
				cs.Close()
			}
		}
	}
	return d
}

// BuildBatch fills a moss batch from a spec.
func BuildBatch(b moss.Batch, spec *BatchSpec) error {
	if spec.AllocStyle == "arena" || spec.AllocStyle == "all-first" {
		keys, vals := make([][]byte, len(spec.Ops)), make([][]byte, len(spec.Ops))
		if spec.AllocStyle == "arena" {
			total := 0
			for _, o := range spec.Ops {
				total += len(o.Key) + len(o.Val)
			}
			arena, e := b.Alloc(total)
			if e != nil {
				return e
			}
			off := 0
			for i, o := range spec.Ops {
				keys[i] = arena[off : off+len(o.Key)]
				off += len(o.Key)
				if o.Kind != 'D' {
					vals[i] = arena[off : off+len(o.Val)]
					off += len(o.Val)
				}
			}
		} else {
			for i, o := range spec.Ops {
				var e error
				if keys[i], e = b.Alloc(len(o.Key)); e != nil {
					return e
				}
				if o.Kind != 'D' {
					if vals[i], e = b.Alloc(len(o.Val)); e != nil {
						return e
					}
				}
			}
		}
		for i, o := range spec.Ops {
			copy(keys[i], o.Key)
			copy(vals[i], o.Val)
			var err error
			switch o.Kind {
			case 'S':
				err = b.AllocSet(keys[i], vals[i])
			case 'M':
				err = b.AllocMerge(keys[i], vals[i])
			case 'D':
				err = b.AllocDel(keys[i])
			}
			if err != nil {
				return err
			}
		}
		spec = &BatchSpec{Kids: spec.Kids, DelKids: spec.DelKids, UseAlloc: true}
	}
	for _, o := range spec.Ops {
		var err error
		if spec.UseAlloc || o.Alloc {
			kb, e := b.Alloc(len(o.Key))
			if e != nil {
				return e
			}
			copy(kb, o.Key)
			switch o.Kind {
			case 'S', 'M':
				vb, e := b.Alloc(len(o.Val))
				if e != nil {
					return e
				}
				copy(vb, o.Val)
				if o.Kind == 'S' {
					err = b.AllocSet(kb, vb)
				} else {
					err = b.AllocMerge(kb, vb)
				}
			case 'D':
				err = b.AllocDel(kb)
			}
		} else {
			switch o.Kind {
			case 'S':
				err = b.Set([]byte(o.Key), []byte(o.Val))
			case 'D':
				err = b.Del([]byte(o.Key))
			case 'M':
				err = b.Merge([]byte(o.Key), []byte(o.Val))
			}
		}
		if err != nil {
			return err
		}
	}
	for _, name := range spec.DelKids {
		if err := b.DelChildCollection(name); err != nil {
			return err
		}
	}
	names := make([]string, 0, len(spec.Kids))
	for name := range spec.Kids {
		names = append(names, name)
	}
	sort.Strings(names)
	for _, name := range names {
		cb, err := b.NewChildCollectionBatch(name, moss.BatchOptions{TotalOps: 8, TotalKeyValBytes: 256})
		if err != nil {
			return err
		}
		cspec := *spec.Kids[name]
		cspec.UseAlloc = spec.UseAlloc
		if err := BuildBatch(cb, &cspec); err != nil {
			return err
		}
	}
	return nil
}
