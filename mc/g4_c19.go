package main

import (
	"encoding/binary"
	"encoding/json"
	"fmt"
	"os"
	"strings"
	"time"

	"github.com/couchbase/moss"
)

// C19 - bytes round-trip exactly; limits and API variants are safe (engine G4).

func c19Sigma() []string {
	magicBeg := string(moss.StoreMagicBeg)
	magicEnd := string(moss.StoreMagicEnd)
	hdr := func(length uint32) string {
		b := []byte(magicBeg + magicBeg)
		var x [4]byte
		binary.LittleEndian.PutUint32(x[:], moss.StoreVersion)
		b = append(b, x[:]...)
		binary.LittleEndian.PutUint32(x[:], length)
		b = append(b, x[:]...)
		return string(b)
	}
	return []string{
		"", "\x00", "\xff", "\x00\xff", "\xff\x00",
		hdr(200), hdr(0xfffffff0), magicEnd + magicEnd,
		strings.Repeat("p", 4096), strings.Repeat("q", 4095), strings.Repeat("r", 4097),
	}
}

type c19Job struct {
	KI, VI int    // indices into sigma
	Tier   string `json:"tier"`
	Big    string `json:"big,omitempty"` // "limits" | "bigkey" | "bigval"
}

type c19Res struct {
	Runs   int         `json:"runs"`
	Stages int         `json:"stages"`
	Viols  []Violation `json:"viols,omitempty"`
	Sample string      `json:"sample,omitempty"`
	Infra  string      `json:"infra,omitempty"`
}

func init() {
	workerHandlers["c19"] = func(data json.RawMessage) (any, error) {
		var j c19Job
		if err := json.Unmarshal(data, &j); err != nil {
			return nil, err
		}
		if j.Big != "" {
			return c19Big(j), nil
		}
		return c19Run(j), nil
	}
	engines["C19"] = checkC19
}

// c19Pipeline drives one case through the fixed data path and compares with the model after every stage.
// It returns the per-stage dumps (for the cross-variant comparison) and the first violation.
func c19Pipeline(cfg Config, first *BatchSpec, probes []string, label string) (dumps []string, viol *Violation, infra string, stages int) {
	second := &BatchSpec{Ops: []Op{{Kind: 'S', Key: "zz", Val: "second"}}}
	if len(first.Ops) > 0 {
		// the second batch also touches the case key again: overwrite (or, for the merge forms, a "keep" merge operand)
		k := first.Ops[len(first.Ops)/2].Key
		if k != "zz" {
			if cfg.MergeOp {
				second.Ops = append(second.Ops, Op{Kind: 'M', Key: k, Val: keepOperand})
			} else {
				second.Ops = append(second.Ops, Op{Kind: 'S', Key: k, Val: "overwritten"})
			}
		}
	}
	alpha := []*BatchSpec{first, second, {Ops: []Op{{Kind: 'S', Key: "zy", Val: "third"}}}}
	w := NewWorld(cfg, alpha)
	defer w.Teardown()
	w.probes = probes
	type stage struct {
		name  string
		steps []string
		pre   func()
	}
	pipeline := []stage{
		{"in memory (top)", []string{"B0"}, nil},
		{"after merger", []string{"M"}, nil},
		{"after persist", []string{"Pb", "Pe"}, nil},
		{"second batch in memory", []string{"B1"}, nil},
		{"second batch merged", []string{"M"}, nil},
		{"second batch being persisted", []string{"Pb"}, nil},
		{"second batch appended", []string{"Pe"}, nil},
		{"after reopen", []string{"R"}, nil},
		{"reopen with forced compaction", []string{"R"}, func() { w.cfg.Concern = 2 }},
		{"third batch -> full compaction", []string{"B2", "M", "Pb", "Pe"}, nil},
		{"reopen after compaction", []string{"R"}, func() { w.cfg.Concern = 0 }},
	}
	for _, st := range pipeline {
		if st.pre != nil {
			st.pre()
		}
		for _, s := range st.steps {
			if !w.Step(s) || (w.infra != "" && w.infra != "stop") {
				return dumps, nil, fmt.Sprintf("%s: step %s at stage %q not possible: %s", label, s, st.name, w.infra), stages
			}
		}
		stages++
		if p := w.threadPanicked(); p != "" {
			return dumps, &Violation{Prop: "C19", Sig: "panic|" + st.name + "|any", Msg: label + ": " + p}, "", stages
		}
		if len(w.viols) > 0 {
			v := w.viols[0]
			v.Prop = "C19"
			v.Msg = label + ", stage " + st.name + ": " + v.Msg
			return dumps, &v, "", stages
		}
		vs := w.snapshotOracle("C19")
		if w.infra != "" {
			return dumps, nil, w.infra, stages
		}
		if len(vs) > 0 {
			v := vs[0]
			parts := strings.SplitN(v.Sig, "|", 2)
			v.Sig = parts[0] + "|" + st.name + "|any"
			v.Msg = label + ", stage " + st.name + ": " + v.Msg
			return dumps, &v, "", stages
		}
		ss, _ := w.coll.Snapshot()
		dumps = append(dumps, DumpSnapshot(ss, probes).String())
		ss.Close()
	}
	return dumps, nil, "", stages
}

func c19Run(j c19Job) (res c19Res) {
	sigma := c19Sigma()
	k, v := sigma[j.KI], sigma[j.VI]
	probes := []string{k, "k0", "k2", "zz", "", "\x00"}
	short := func(s string) string {
		if len(s) > 24 {
			return fmt.Sprintf("%q...(%d bytes)", s[:12], len(s))
		}
		return fmt.Sprintf("%q", s)
	}
	cfgs := []Config{
		{Backing: "store", MinMergePct: 100},
		{Backing: "store", MinMergePct: 100, DeferredSort: true, CachePersisted: true},
	}
	// merge form: the second batch applies a "keep" merge operand to the case key (value must survive unchanged, also when empty)
	cfgs = append(cfgs, Config{Backing: "store", MinMergePct: 0.01, MergeOp: true, CachePersisted: true})
	if j.Tier == "thorough" {
		cfgs = append(cfgs, Config{Backing: "store", MinMergePct: 100, DeferredSort: true}, Config{Backing: "store", MinMergePct: 100, CachePersisted: true},
			Config{Backing: "store", MinMergePct: 100, MergeOp: true, DeferredSort: true})
	}
	for _, form := range []string{"single", "middle-of-three"} {
		ref := map[bool][]string{}
		for _, build := range []string{"plain", "alloc", "mixed", "arena", "all-first"} {
			if form == "single" && build == "all-first" {
				continue // the same calls as "alloc" for a single entry
			}
			for ci, cfg := range cfgs {
				b := &BatchSpec{}
				if build == "arena" || build == "all-first" {
					b.AllocStyle = build
				}
				mk := func(key, val string, idx int) Op {
					o := Op{Kind: 'S', Key: key, Val: val}
					o.Alloc = build == "alloc" || (build == "mixed" && idx%2 == 1)
					return o
				}
				if form == "single" {
					b.Ops = []Op{mk(k, v, 1)}
				} else {
					if k == "k0" || k == "k2" {
						continue
					}
					b.Ops = []Op{mk("k0", "first", 0), mk(k, v, 1), mk("k2", "last", 2)}
				}
				label := fmt.Sprintf("key %s value %s as %s entry, built %s, %s", short(k), short(v), form, build, cfg)
				dumps, viol, infra, stages := c19Pipeline(cfg, b, probes, label)
				res.Runs++
				res.Stages += stages
				if infra != "" {
					res.Infra = infra
					return
				}
				if viol != nil {
					res.Viols = append(res.Viols, *viol)
					continue
				}
				if ref[cfg.MergeOp] == nil {
					ref[cfg.MergeOp] = dumps
				} else if strings.Join(ref[cfg.MergeOp], "\n") != strings.Join(dumps, "\n") {
					res.Viols = append(res.Viols, Violation{Prop: "C19", Sig: "variant-differs|" + build + "|any",
						Msg: label + ": the per-stage dumps differ from those of the plain build / first option combination"})
				}
				_ = ci
			}
		}
	}
	res.Sample = fmt.Sprintf("key %s, value %s: single and middle-of-three, plain / alloc / mixed / arena / all-first builds, %d option combinations, 11 pipeline stages each", short(k), short(v), len(cfgs))
	return
}

// c19Big: documented limits.  "limits": oversize entries are rejected and do not disturb their neighbours
// (all three API variants); "bigkey"/"bigval": the largest admissible key / value is stored and read back.
func c19Big(j c19Job) (res c19Res) {
	defer func() {
		if r := recover(); r != nil {
			res.Viols = append(res.Viols, Violation{Prop: "C19", Sig: "panic|limits|any", Msg: fmt.Sprint("panic: ", r)})
		}
	}()
	const maxKey, maxVal = 1<<24 - 1, 1<<28 - 1
	switch j.Big {
	case "limits":
		for _, variant := range []string{"plain", "alloc"} {
			for _, which := range []string{"key", "val", "merge-key", "del-key"} {
				w := NewWorld(Config{Backing: "none", MinMergePct: 100, MergeOp: true}, nil)
				var gotErr, okErr error
				var wantErr error
				t := w.s.Spawn("limits", func() {
					b, _ := w.coll.NewBatch(8, maxVal+maxKey+64)
					set := func(k, v []byte, op byte) error {
						if variant == "alloc" {
							kb, e := b.Alloc(len(k))
							if e != nil {
								return e
							}
							copy(kb, k)
							vb, e := b.Alloc(len(v))
							if e != nil {
								return e
							}
							copy(vb, v)
							switch op {
							case 'M':
								return b.AllocMerge(kb, vb)
							case 'D':
								return b.AllocDel(kb)
							}
							return b.AllocSet(kb, vb)
						}
						switch op {
						case 'M':
							return b.Merge(k, v)
						case 'D':
							return b.Del(k)
						}
						return b.Set(k, v)
					}
					okErr = set([]byte("k0"), []byte("first"), 'S')
					switch which {
					case "key":
						gotErr, wantErr = set(make([]byte, maxKey+1), []byte("x"), 'S'), moss.ErrKeyTooLarge
					case "val":
						gotErr, wantErr = set([]byte("big"), make([]byte, maxVal+1), 'S'), moss.ErrValueTooLarge
					case "merge-key":
						gotErr, wantErr = set(make([]byte, maxKey+1), []byte("x"), 'M'), moss.ErrKeyTooLarge
					case "del-key":
						gotErr, wantErr = set(make([]byte, maxKey+1), nil, 'D'), moss.ErrKeyTooLarge
					}
					if okErr == nil {
						okErr = set([]byte("k2"), []byte("last"), 'S')
					}
					if okErr == nil {
						okErr = w.coll.ExecuteBatch(b, moss.WriteOptions{})
					}
					b.Close()
				})
				w.mains[t.ID] = true
				w.run(t)
				w.settle()
				res.Runs++
				if gotErr != wantErr {
					res.Viols = append(res.Viols, Violation{Prop: "C19", Sig: "limit-not-enforced|" + which + "|any",
						Msg: fmt.Sprintf("%s variant: oversize %s returned %v, want %v", variant, which, gotErr, wantErr)})
				}
				if okErr != nil {
					res.Viols = append(res.Viols, Violation{Prop: "C19", Sig: "neighbour-op-failed|" + which + "|any", Msg: fmt.Sprintf("%s variant: a valid operation next to the rejected one failed: %v", variant, okErr)})
				} else {
					w.models = append(w.models, &Node{KV: map[string]string{"k0": "first", "k2": "last"}, Kids: map[string]*Node{}})
					w.probes = []string{"k0", "k2", "big", ""}
					w.Step("M")
					if vs := w.snapshotOracle("C19"); len(vs) > 0 {
						v := vs[0]
						v.Sig = strings.SplitN(v.Sig, "|", 2)[0] + "|after-rejected-" + which + "|any"
						v.Msg = variant + " variant, batch with a rejected oversize " + which + " between two valid entries: " + v.Msg
						res.Viols = append(res.Viols, v)
					}
					res.Stages++
				}
				w.Teardown()
			}
		}
		res.Sample = "oversize key (2^24 bytes) / value (2^28 bytes) via Set, Merge, Del and the Alloc* variants between two valid entries: exact error, neighbours intact"
	case "burst":
		// three batches pile up before one merger cycle (MaxPreMergerBatches=3, partial merges), the first one much
		// larger than the others and filled in descending key order, at the top level and inside a child collection;
		// DeferredSort / CachePersisted on and off must give exactly the dumps of the plain build at every stage
		var ref []string
		for ci, cfg := range []Config{
			{Backing: "store", MinMergePct: 100, MaxPre: 3},
			{Backing: "store", MinMergePct: 100, MaxPre: 3, DeferredSort: true},
			{Backing: "store", MinMergePct: 100, MaxPre: 3, DeferredSort: true, CachePersisted: true},
			{Backing: "store", MinMergePct: 100, MaxPre: 3, CachePersisted: true},
			{Backing: "store", MinMergePct: 100, MaxPre: 3, DeferredSort: true, Concern: 2},
		} {
			first := &BatchSpec{Kids: map[string]*BatchSpec{"A": {}}}
			var probes []string
			for i := 8; i >= 0; i-- { // descending insertion order
				k := fmt.Sprintf("k%d", i)
				ck := fmt.Sprintf("c%d\x00\xff", i)
				probes = append(probes, k, ck)
				first.Ops = append(first.Ops, Op{Kind: 'S', Key: k, Val: "v" + k})
				first.Kids["A"].Ops = append(first.Kids["A"].Ops, Op{Kind: 'S', Key: ck, Val: "w" + ck})
			}
			second := &BatchSpec{Ops: []Op{{Kind: 'S', Key: "zz", Val: "second"}}, Kids: kid("A", &BatchSpec{Ops: []Op{{Kind: 'S', Key: "d", Val: "2"}}})}
			third := &BatchSpec{Ops: []Op{{Kind: 'S', Key: "zy", Val: "third"}}, Kids: kid("A", &BatchSpec{Ops: []Op{{Kind: 'S', Key: "e", Val: "3"}}})}
			probes = append(probes, "zz", "zy", "d", "e", "")
			label := fmt.Sprintf("burst of three batches (9 keys in descending order at the top level and in child A, then two small ones) before one merger cycle, %s", cfg)
			w := NewWorld(cfg, []*BatchSpec{first, second, third})
			w.probes = probes
			var dumps []string
			var viol *Violation
			// no read before the first persistence round has completed: a read sorts deferred segments in place
			for _, stage := range [][]string{{"B0", "B1", "B2", "M", "Pb", "Pe"}, {"R"}, {"B1", "M", "Pb", "Pe"}, {"R"}} {
				for _, st := range stage {
					if !w.Step(st) || w.infra != "" {
						res.Infra = fmt.Sprintf("%s: step %s not possible: %s", label, st, w.infra)
						w.Teardown()
						return
					}
				}
				res.Stages++
				if p := w.threadPanicked(); p != "" {
					viol = &Violation{Prop: "C19", Sig: "panic|burst|any", Msg: label + ": " + p}
					break
				}
				if vs := append(w.viols, w.snapshotOracle("C19")...); len(vs) > 0 {
					v := vs[0]
					v.Prop = "C19"
					v.Sig = strings.SplitN(v.Sig, "|", 2)[0] + "|burst|any"
					v.Msg = fmt.Sprintf("%s, after %v: %s", label, stage, v.Msg)
					viol = &v
					break
				}
				ss, _ := w.coll.Snapshot()
				dumps = append(dumps, DumpSnapshot(ss, probes).String())
				ss.Close()
			}
			w.Teardown()
			res.Runs++
			if viol != nil {
				res.Viols = append(res.Viols, *viol)
				continue
			}
			if ci == 0 {
				ref = dumps
			} else if ref != nil && strings.Join(ref, "\n") != strings.Join(dumps, "\n") {
				res.Viols = append(res.Viols, Violation{Prop: "C19", Sig: "variant-differs|burst|any", Msg: label + ": the per-stage dumps differ from those of the plain build"})
			}
		}
		res.Sample = "burst: three batches before one merger cycle (first large and in descending key order, top level and child collection), plain / DeferredSort / CachePersisted / forced compaction, 4 stages each"
	case "uneven":
		// key lengths so uneven that the in-memory key index of the persisted segment is cut short (the index's data area
		// is sized from the average key length): eight keys, one of them 40 bytes long at every position in turn
		for pos := 0; pos < 8; pos++ {
			for _, build := range []string{"plain", "alloc"} {
				b := &BatchSpec{}
				var probes []string
				for i := 0; i < 8; i++ {
					k := string(rune('a' + i))
					if i == pos {
						k = strings.Repeat(k, 40)
					}
					probes = append(probes, k)
					b.Ops = append(b.Ops, Op{Kind: 'S', Key: k, Val: "v" + k[:1], Alloc: build == "alloc"})
				}
				probes = append(probes, "zz", "zy", "", "dd")
				cfg := Config{Backing: "store", MinMergePct: 100, KeysIndexMax: 64, KeysIndexMin: 1}
				_, viol, infra, stages := c19Pipeline(cfg, b, probes, fmt.Sprintf("eight keys with a 40-byte key at position %d, built %s, %s", pos, build, cfg))
				res.Runs++
				res.Stages += stages
				if infra != "" {
					res.Infra = infra
					return
				}
				if viol != nil {
					res.Viols = append(res.Viols, *viol)
				}
			}
		}
		res.Sample = "eight keys of which one is 40 bytes long (every position), key index quota 64 bytes: the index of the persisted segment ends early; all 11 pipeline stages"
	case "bigkey", "bigval":
		k, v := "bk", "bv"
		if j.Big == "bigkey" {
			k = strings.Repeat("K", maxKey)
		} else {
			v = strings.Repeat("V", maxVal)
		}
		b := &BatchSpec{Ops: []Op{{Kind: 'S', Key: "k0", Val: "first"}, {Kind: 'S', Key: k, Val: v}, {Kind: 'S', Key: "k2", Val: "last"}}}
		_, viol, infra, stages := c19PipelineBig(Config{Backing: "store", MinMergePct: 100}, b, []string{k, "k0", "k2", "zz"}, "largest admissible "+j.Big[3:])
		res.Runs++
		res.Stages += stages
		res.Infra = infra
		if viol != nil {
			res.Viols = append(res.Viols, *viol)
		}
		res.Sample = fmt.Sprintf("largest admissible %s (key %d bytes, value %d bytes) through all 8 pipeline stages", j.Big[3:], len(k), len(v))
	}
	return
}

func c19PipelineBig(cfg Config, first *BatchSpec, probes []string, label string) ([]string, *Violation, string, int) {
	return c19Pipeline(cfg, first, probes, label)
}

func checkC19(prop, tier string) int {
	t0 := time.Now()
	sigma := c19Sigma()
	var jobs []Job
	for ki := range sigma {
		for vi := range sigma {
			jobs = append(jobs, Job{Kind: "c19", Data: mustJSON(c19Job{KI: ki, VI: vi, Tier: tier})})
		}
	}
	jobs = append(jobs, Job{Kind: "c19", Data: mustJSON(c19Job{Tier: tier, Big: "limits"})})
	jobs = append(jobs, Job{Kind: "c19", Data: mustJSON(c19Job{Tier: tier, Big: "uneven"})})
	jobs = append(jobs, Job{Kind: "c19", Data: mustJSON(c19Job{Tier: tier, Big: "burst"})})
	if tier == "thorough" {
		jobs = append(jobs, Job{Kind: "c19", Data: mustJSON(c19Job{Tier: tier, Big: "bigkey"})}, Job{Kind: "c19", Data: mustJSON(c19Job{Tier: tier, Big: "bigval"})})
	}
	pool := NewPool()
	pool.JobTimeout = 10 * time.Minute
	pool.Deadline = time.Now().Add(g4Deadline(tier))
	results := pool.Run(jobs)
	skippedByDeadline := countSkipped(results)
	var tot c19Res
	infra := 0
	var viols []Violation
	seen := map[string]bool{}
	var samples []any
	for i, r := range results {
		if r.Crashed || r.Err != "" {
			if v := crashViolation(pool, "C19", jobs[i], r); v != nil {
				viols = append(viols, *v)
				continue
			}
			infra++
			fmt.Fprintf(os.Stderr, "INFRA: c19 job %d: %s %s\n", i, r.Err, tail(r.Stderr, 600))
			continue
		}
		var cr c19Res
		json.Unmarshal(r.Data, &cr)
		if cr.Infra != "" {
			infra++
			fmt.Fprintf(os.Stderr, "INFRA: c19 job %d: %s\n", i, cr.Infra)
		}
		tot.Runs += cr.Runs
		tot.Stages += cr.Stages
		if cr.Sample != "" && (i%29 == 0 || i >= len(sigma)*len(sigma)) {
			samples = append(samples, cr.Sample)
		}
		for _, v := range cr.Viols {
			if !seen[v.Sig] {
				seen[v.Sig] = true
				viols = append(viols, v)
			}
		}
	}
	viols = reportViolations("C19", "G4", viols)
	if len(samples) == 0 {
		samples = append(samples, "none")
	}
	writeEvidence(&Evidence{PropertyID: "C19", Tier: tier, Violations: len(viols), WallS: time.Since(t0).Seconds(), Assumptions: commonAssumptions,
		Coverage: map[string]any{
			"states":                        tot.Stages,
			"transitions":                   tot.Stages,
			"traces_validated_against_impl": tot.Runs,
			"evaluations":                   tot.Runs,
			"distinct_nontrivial":           len(sigma)*len(sigma) - 1,
			"rule":                          "every (key, value) pair of the byte-string alphabet (empty, 0x00, 0xff, store magic look-alikes with plausible and absurd length fields, 4095/4096/4097-byte strings) as a single-entry batch and as the middle entry of a three-entry batch, built plain / Alloc* / mixed / Alloc* from one arena allocation / all Alloc calls before the first Alloc* call, under DeferredSort+CachePersisted off/on, through 8 fixed pipeline stages (memory, merger, persist, reopen, appended batch, reopen, full compaction, reopen) with a model comparison after each; oversize entries at exactly 2^24 / 2^28 bytes are rejected; eight keys of very uneven length with a key index that ends early; a burst of three batches before one merger cycle (first one large, descending insertion order, with a child collection) under DeferredSort / CachePersisted on and off; states = pipeline stages compared; distinct_nontrivial = distinct non-trivial (key,value) pairs",
			"samples":                       samples,
			"exhaustive":                    infra == 0 && skippedByDeadline == 0,
			"cap_hit":                       fmt.Sprintf("%d of %d jobs skipped by the deadline of %v", skippedByDeadline, len(jobs), g4Deadline(tier)),
			"alphabet_size":                 len(sigma),
			"pipeline_runs":                 tot.Runs,
			"infrastructure_errors":         infra,
		}})
	fmt.Fprintf(os.Stderr, "[C19 %s] runs=%d stages=%d violations=%d infra=%d wall=%.1fs\n", tier, tot.Runs, tot.Stages, len(viols), infra, time.Since(t0).Seconds())
	if len(viols) > 0 {
		return 1
	}
	if infra > 0 && tot.Runs == 0 {
		return 2
	}
	return 0
}
