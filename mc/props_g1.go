package main

import (
	"fmt"
	"strings"
	"time"

	"github.com/couchbase/moss"
)

func ops(spec ...string) []Op {
	// "S:a" set a=$, "E:a" set a="" (empty), "D:a" del a, "M:a" merge a $, "S:a=lit"
	var out []Op
	for _, s := range spec {
		kind, rest := s[0], s[2:]
		key, val := rest, "$"
		if i := strings.Index(rest, "="); i >= 0 {
			key, val = rest[:i], rest[i+1:]
		}
		switch kind {
		case 'S':
			out = append(out, Op{Kind: 'S', Key: key, Val: val})
		case 'E':
			out = append(out, Op{Kind: 'S', Key: key, Val: ""})
		case 'D':
			out = append(out, Op{Kind: 'D', Key: key})
		case 'M':
			out = append(out, Op{Kind: 'M', Key: key, Val: val})
		}
	}
	return out
}

func tierDeadline(tier string) time.Duration {
	if tier == "thorough" {
		return 12 * time.Minute
	}
	return 170 * time.Second
}

// snapshotOracle compares a fresh collection snapshot with the reference model.
func (w *World) snapshotOracle(prop string) []Violation {
	if w.closedColl || w.coll == nil {
		return nil
	}
	if moss.VerifCollLocked(w.coll) {
		w.infra = "collection mutex held at a stop point; cannot read"
		return nil
	}
	ss, err := w.coll.Snapshot()
	if err != nil {
		return []Violation{{Prop: prop, Sig: "snapshot-error|collection|any", Msg: "Collection.Snapshot failed: " + err.Error()}}
	}
	got := DumpSnapshot(ss, w.probes)
	ss.Close()
	exp := w.model().DumpT(w.probes)
	if class, detail := DiffDumps(exp, got, "Collection.Snapshot"); class != "" {
		return []Violation{{Prop: prop, Sig: class + "|collection-snapshot|" + w.trigger(class),
			Msg: fmt.Sprintf("%s\n  expected %s\n  observed %s\n  sections(top,mid,base,clean,lower)=%v", detail, exp, got, w.Heights())}}
	}
	return nil
}

// drainedStoreOracle: when nothing is dirty and the system is idle (persistence has caught up), the store's
// own snapshot must already show the full reference content - the same condition the reopen oracle uses,
// evaluated without paying for a close + reopen.
func (w *World) drainedStoreOracle(prop string) []Violation {
	if w.store == nil || w.closedStore || w.closedColl || w.coll == nil || moss.VerifCollLocked(w.coll) {
		return nil
	}
	if !(moss.VerifDirtyEmpty(w.coll) && w.quiescent()) {
		return nil
	}
	p, d := w.storePrefix()
	if d == nil || p == len(w.models)-1 {
		return nil
	}
	class, detail := DiffDumps(w.model().DumpT(w.probes), d, "Store.Snapshot")
	return []Violation{{Prop: prop, Sig: "idle-but-store-stale:" + class + "|store|any",
		Msg: fmt.Sprintf("nothing is dirty and merger and persister are idle, yet the store's own snapshot is not the full reference content: %s\n  expected %s\n  observed %s", detail, w.model().DumpT(w.probes), d)}}
}

// trigger returns the history predicate part of a violation signature.  It is "any" unless
// the divergence falls into the narrow class of a recorded known finding (see known_findings.json).
func (w *World) trigger(class string) string {
	return "any"
}

var c01Alpha = []*BatchSpec{
	{Ops: ops("S:a")},
	{Ops: ops("D:a")},
	{Ops: ops("S:b", "S:a")}, // inserted in descending key order (matters for DeferredSort)
	{Ops: ops("S:a", "D:b")},
	{Ops: ops("E:a", "D:")},
	{Ops: ops("S:", "E:b")},
}

func baseConfigs(tier string, mergeOp bool) []Config {
	var cfgs []Config
	if tier == "thorough" {
		for _, backing := range []string{"none", "map", "store"} {
			for _, mm := range []float64{0.01, 100} {
				for _, ds := range []bool{false, true} {
					for _, cp := range []bool{false, true} {
						if backing == "none" && cp {
							continue
						}
						if backing == "store" {
							for cc := 0; cc <= 2; cc++ {
								cfgs = append(cfgs, Config{Backing: backing, MinMergePct: mm, DeferredSort: ds, CachePersisted: cp, Concern: cc, MergeOp: mergeOp})
							}
						} else {
							cfgs = append(cfgs, Config{Backing: backing, MinMergePct: mm, DeferredSort: ds, CachePersisted: cp, MergeOp: mergeOp})
						}
					}
				}
			}
		}
		cfgs = append(cfgs, Config{Backing: "map", MinMergePct: 100, NoLLInit: true, MergeOp: mergeOp},
			Config{Backing: "map", MinMergePct: 0.01, NoLLInit: true, CachePersisted: true, MergeOp: mergeOp},
			Config{Backing: "store", MinMergePct: 100, Concern: 0, DeferredSort: true, MaxPre: 3, MergeOp: mergeOp})
		return cfgs
	}
	// quick: covering subset - every option value at least once, every pair of {backing, CachePersisted, concern}
	return []Config{
		{Backing: "none", MinMergePct: 0.01, MergeOp: mergeOp},
		{Backing: "none", MinMergePct: 100, DeferredSort: true, MergeOp: mergeOp},
		{Backing: "map", MinMergePct: 100, NoLLInit: true, MergeOp: mergeOp},
		{Backing: "map", MinMergePct: 0.01, CachePersisted: true, DeferredSort: true, MergeOp: mergeOp},
		{Backing: "store", MinMergePct: 100, Concern: 0, DeferredSort: true, MaxPre: 3, MergeOp: mergeOp},
		{Backing: "store", MinMergePct: 0.01, Concern: 1, MergeOp: mergeOp},
		{Backing: "store", MinMergePct: 100, Concern: 2, DeferredSort: true, MergeOp: mergeOp},
		{Backing: "store", MinMergePct: 0.01, Concern: 2, CachePersisted: true, MergeOp: mergeOp},
	}
}

func init() {
	g1Specs["C01"] = func(tier string) *G1Spec {
		sp := &G1Spec{Prop: "C01", Alpha: c01Alpha, Configs: baseConfigs(tier, false),
			Steps: []string{"M", "MA", "Pb", "Pe", "R"}, Devs: []string{"m1", "p1", "m2", "p2"},
			Roots: [][]string{{"B0", "M", "Pb", "Pe"}, {"B2", "M", "Pb", "Pe", "B0", "M", "Pb", "Pe", "R"}},
			MaxB:  3, MaxD: 9, MaxK: 1, MaxR: 1, Deadline: tierDeadline(tier),
			Note: "oracle: dump(Collection.Snapshot()) == reference model after every step", Share: 0.9}
		if tier == "thorough" {
			sp.MaxB, sp.MaxD, sp.MaxK, sp.MaxR = 4, 13, 2, 2
		}
		sp.Check = func(w *World, path []string) []Violation { return w.snapshotOracle("C01") }
		return sp
	}
	// a narrow alphabet (one key: set it, delete it) explored deeper on the fast backings
	g1Specs["C01deep"] = func(tier string) *G1Spec {
		sp := g1Specs["C01"](tier)
		sp.Alpha = []*BatchSpec{{Ops: ops("S:a")}, {Ops: ops("D:a")}}
		sp.Configs = []Config{
			{Backing: "none", MinMergePct: 100},
			{Backing: "map", MinMergePct: 100, CachePersisted: true},
			{Backing: "map", MinMergePct: 0.01, NoLLInit: true},
			{Backing: "map", MinMergePct: 100, NoLLInit: true, CachePersisted: true, DeferredSort: true, MaxPre: 3},
		}
		sp.Steps = []string{"M", "MA", "Pb", "Pe"}
		sp.Devs = []string{"m2", "p2"}
		sp.Roots = [][]string{{"B0", "M", "Pb"}}
		sp.MaxB, sp.MaxD, sp.MaxK, sp.MaxR = 4, 10, 1, 0
		sp.Share = 0.1
		sp.Note += "; deep variant: two-batch alphabet on one key, in-memory and map lower levels, to depth 10"
		return sp
	}
	g1Groups["C01"] = []string{"C01", "C01deep"}
	engines["C01"] = checkG1
}
