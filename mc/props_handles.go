package main

import (
	"fmt"
	"os"
	"sort"
	"strings"

	"github.com/couchbase/moss"
)

// ---------------------------------------------------------------- handle steps (C02, C15)
//
//   S+   take a collection snapshot (kept open)          CS+  child snapshot "A" of the newest open snapshot
//   I+   iterator on the newest open snapshot            SS+  store snapshot (mossStore only)
//   H-   close the oldest open handle                    CC   close the collection        CS   close the store

const maxOpenHandles = 2

func (w *World) openHandles() int { return len(w.handles) }

func (w *World) newestSnap() *handle {
	for i := len(w.handles) - 1; i >= 0; i-- {
		if w.handles[i].Kind == "snap" {
			return w.handles[i]
		}
	}
	return nil
}

func iterAll(it moss.Iterator) (kv [][2]string, errs []string) {
	for n := 0; n < 10000; n++ {
		k, v, err := it.Current()
		if err == moss.ErrIteratorDone {
			return
		}
		if err != nil {
			errs = append(errs, err.Error())
			return
		}
		kv = append(kv, [2]string{string(k), string(v)})
		if err := it.Next(); err != nil {
			if err != moss.ErrIteratorDone {
				errs = append(errs, err.Error())
			}
			return
		}
	}
	errs = append(errs, "runaway")
	return
}

func (w *World) stepHandles(st string) bool {
	switch st {
	case "S+":
		if w.closedColl || w.openHandles() >= maxOpenHandles || moss.VerifCollLocked(w.coll) {
			return false
		}
		ss, err := w.coll.Snapshot()
		if err != nil {
			w.viols = append(w.viols, Violation{Sig: "snapshot-error|collection|any", Msg: "Collection.Snapshot failed: " + err.Error()})
			return true
		}
		// the content a snapshot must keep showing is what it showed at the moment it was taken
		// (whether that equals the reference model is C01's question, not C02's)
		w.handles = append(w.handles, &handle{Kind: "snap", Snap: ss, Expect: DumpSnapshot(ss, w.probes).String(), TakenAt: len(w.models) - 1})
		return true
	case "CS+":
		p := w.newestSnap()
		if p == nil || w.openHandles() >= maxOpenHandles+1 {
			return false
		}
		for _, h := range w.handles {
			if h.Kind == "child" {
				return false
			}
		}
		hasA := false
		if names, err := p.Snap.ChildCollectionNames(); err == nil {
			for _, n := range names {
				hasA = hasA || n == "A"
			}
		}
		if !hasA {
			return false
		}
		cs, err := p.Snap.ChildCollectionSnapshot("A")
		if err != nil || cs == nil {
			w.viols = append(w.viols, Violation{Sig: "child-snapshot-missing|handle|any", Msg: fmt.Sprintf("ChildCollectionSnapshot(A) on an open snapshot = %v, %v although the child exists in it", cs, err)})
			return true
		}
		w.handles = append(w.handles, &handle{Kind: "child", Snap: cs, Expect: DumpSnapshot(cs, w.probes).String(), TakenAt: p.TakenAt})
		return true
	case "I+":
		p := w.newestSnap()
		if p == nil || w.openHandles() >= maxOpenHandles+1 {
			return false
		}
		for _, h := range w.handles {
			if h.Kind == "iter" {
				return false
			}
		}
		it, err := p.Snap.StartIterator(nil, nil, moss.IteratorOptions{})
		if err != nil || it == nil {
			w.viols = append(w.viols, Violation{Sig: "iterator-error|handle|any", Msg: fmt.Sprintf("StartIterator on an open snapshot = %v, %v", it, err)})
			return true
		}
		var exp [][2]string
		if it2, err2 := p.Snap.StartIterator(nil, nil, moss.IteratorOptions{}); err2 == nil && it2 != nil {
			exp, _ = iterAll(it2)
			it2.Close()
		}
		w.handles = append(w.handles, &handle{Kind: "iter", Iter: it, IterKV: exp, Expect: fmt.Sprint(exp), TakenAt: p.TakenAt})
		return true
	case "SS+":
		if w.store == nil || w.closedStore || w.openHandles() >= maxOpenHandles {
			return false
		}
		for _, h := range w.handles {
			if h.Kind == "storesnap" {
				return false
			}
		}
		ss, err := w.store.Snapshot()
		if err != nil || ss == nil {
			return false
		}
		// a store snapshot shows whatever the store exposes now; it must keep showing exactly that
		w.handles = append(w.handles, &handle{Kind: "storesnap", Snap: ss, Expect: DumpSnapshot(ss, w.probes).String()})
		return true
	case "IX": // iterator exercise on every open snapshot: walk forward, seek backwards (restart path), close
		n := 0
		for _, h := range w.handles {
			if h.Snap == nil {
				continue
			}
			it, err := h.Snap.StartIterator(nil, nil, moss.IteratorOptions{})
			if err != nil || it == nil {
				continue
			}
			n++
			it.Next() // one step only: the lower-level part of the iterator must not be exhausted yet
			it.SeekTo([]byte(""))
			it.Current()
			it.Close()
		}
		return n > 0
	case "H-":
		if len(w.handles) == 0 {
			return false
		}
		w.closeHandle(w.handles[0])
		w.handles = w.handles[1:]
		w.helpers()
		return true
	case "CC":
		if w.closedColl || w.pending != nil {
			return false
		}
		w.closeColl()
		return true
	case "CS":
		if w.store == nil || w.closedStore || !w.closedColl {
			return false
		}
		w.closeAll()
		return true
	}
	return false
}

// closeColl closes only the collection (scheduled thread, everything run to completion).
func (w *World) closeColl() {
	if w.coll == nil || w.closedColl {
		return
	}
	w.gateOff = true
	w.gateFlag = true
	t := w.s.Spawn("close", func() { w.coll.Close() })
	w.mains[t.ID] = true
	w.s.SleepFree = true
	w.runAll()
	w.closedColl = true
	w.gateOff = false
	w.inGate = false
	if !t.Done {
		w.infra = "Close did not return: " + w.describeThreads()
	}
}

func (w *World) closeHandle(h *handle) {
	if h.Iter != nil {
		h.Iter.Close()
		h.Iter = nil
	}
	if h.Snap != nil {
		h.Snap.Close()
		h.Snap = nil
	}
}

// handlesOracle re-reads every open handle; each must still show what it showed when taken.
func (w *World) handlesOracle(prop string) []Violation {
	var out []Violation
	for i, h := range w.handles {
		switch h.Kind {
		case "snap", "child", "storesnap":
			got := DumpSnapshot(h.Snap, w.probes)
			if got.String() != h.Expect {
				class := "changed"
				if len(got.Errs) > 0 {
					class = "read-error"
				}
				out = append(out, Violation{Prop: prop, Sig: "handle-" + class + "|" + h.Kind + "|any",
					Msg: fmt.Sprintf("open %s handle #%d no longer shows the content it had when taken\n  expected %s\n  observed %s", h.Kind, i, h.Expect, got)})
			}
		case "iter":
			// the iterator is left positioned on its first entry: Current must still be that entry,
			// and a fresh walk of the same position (via a clone iterator of the snapshot) the same list.
			k, v, err := h.Iter.Current()
			if len(h.IterKV) == 0 {
				if err != moss.ErrIteratorDone {
					out = append(out, Violation{Prop: prop, Sig: "handle-changed|iter|any", Msg: fmt.Sprintf("open iterator over an empty snapshot now yields %q=%q err=%v", k, v, err)})
				}
			} else if err != nil || string(k) != h.IterKV[0][0] || string(v) != h.IterKV[0][1] {
				out = append(out, Violation{Prop: prop, Sig: "handle-changed|iter|any",
					Msg: fmt.Sprintf("open iterator's current entry changed: %q=%q err=%v, expected %q=%q", k, v, err, h.IterKV[0][0], h.IterKV[0][1])})
			}
		}
	}
	return out
}

// ---------------------------------------------------------------- C15 terminal phase

// storeResources lists open descriptors and memory mappings that refer to dir.
func storeResources(dir string) (fds, maps []string) {
	ents, _ := os.ReadDir("/proc/self/fd")
	for _, e := range ents {
		t, err := os.Readlink("/proc/self/fd/" + e.Name())
		if err == nil && strings.HasPrefix(t, dir) {
			fds = append(fds, t)
		}
	}
	b, _ := os.ReadFile("/proc/self/maps")
	for _, line := range strings.Split(string(b), "\n") {
		if strings.Contains(line, dir) {
			f := strings.Fields(line)
			maps = append(maps, f[len(f)-1])
		}
	}
	sort.Strings(fds)
	sort.Strings(maps)
	return
}

// permutations of 0..n-1 in lexicographic order.
func permutations(n int) [][]int {
	var out [][]int
	var rec func(cur []int, used []bool)
	rec = func(cur []int, used []bool) {
		if len(cur) == n {
			out = append(out, append([]int{}, cur...))
			return
		}
		for i := 0; i < n; i++ {
			if !used[i] {
				used[i] = true
				rec(append(cur, i), used)
				used[i] = false
			}
		}
	}
	rec(nil, make([]bool, n))
	return out
}

// closeEverything (C15 terminal phase): close the remaining handles, the collection and the store in the
// variant-th order, run every thread to completion, then look for descriptors, mappings and stale files.
func (w *World) closeEverything(prop string, variant int) (viols []Violation, more bool) {
	if w.pending != nil {
		return nil, false // a blocked writer is C16's subject
	}
	type obj struct {
		name string
		do   func()
	}
	var objs []obj
	for i, h := range w.handles {
		h := h
		objs = append(objs, obj{fmt.Sprintf("%s#%d", h.Kind, i), func() { w.closeHandle(h) }})
	}
	if w.coll != nil && !w.closedColl {
		objs = append(objs, obj{"collection", func() { w.closeColl() }})
	}
	if w.store != nil && !w.closedStore {
		objs = append(objs, obj{"store", func() {
			t := w.s.Spawn("closestore", func() { w.store.Close() })
			w.mains[t.ID] = true
			w.runAll()
			w.closedStore = true
		}})
	}
	perms := permutations(len(objs))
	if w.fewCloseOrders && len(perms) > 2 {
		// quick tier: the canonical order (handles, collection, store) and its reverse; thorough: every order
		perms = [][]int{perms[0], perms[len(perms)-1]}
	}
	if variant >= len(perms) {
		return nil, false
	}
	var order []string
	for _, i := range perms[variant] {
		order = append(order, objs[i].name)
		objs[i].do()
		w.helpers()
		if w.infra != "" {
			return nil, false
		}
	}
	w.handles = nil
	w.s.SleepFree = true
	w.runAll()
	if pm := w.threadPanicked(); pm != "" {
		return []Violation{{Prop: prop, Sig: "panic|close-phase|any", Msg: fmt.Sprintf("close order %v: %s", order, pm)}}, false
	}
	for i := 0; i < w.s.NumThreads(); i++ {
		if t := w.s.Thread(i); !t.Done {
			return []Violation{{Prop: prop, Sig: "thread-left|close-phase|any", Msg: fmt.Sprintf("close order %v: thread %s never finished: %s", order, t.Name, w.describeThreads())}}, false
		}
	}
	if w.dir != "" {
		fds, maps := storeResources(w.dir)
		if len(fds) > 0 {
			viols = append(viols, Violation{Prop: prop, Sig: "descriptor-leak|close-phase|" + w.leakTrigger(order), Msg: fmt.Sprintf("after closing everything (order %v) the process still holds descriptors %v", order, fds)})
		} else if len(maps) > 0 {
			viols = append(viols, Violation{Prop: prop, Sig: "mapping-leak|close-phase|" + w.leakTrigger(order), Msg: fmt.Sprintf("after closing everything (order %v) the process still maps %v", order, maps)})
		} else if files := dataFiles(w.dir); len(files) > 1 && !w.cfg.KeepFiles {
			viols = append(viols, Violation{Prop: prop, Sig: "stale-data-file|close-phase|" + w.leakTrigger(order), Msg: fmt.Sprintf("after closing everything (order %v) the directory holds %v", order, files)})
		}
	}
	return viols, variant+1 < len(perms)
}

// leakTrigger narrows C15 signatures by whether the store was closed before the collection.
func (w *World) leakTrigger(order []string) string {
	si, ci := -1, -1
	for i, n := range order {
		if n == "store" {
			si = i
		}
		if n == "collection" {
			ci = i
		}
	}
	if si >= 0 && ci >= 0 && si < ci {
		return "store-closed-before-collection"
	}
	return "any"
}

func init() {
	g1Specs["C15"] = func(tier string) *G1Spec {
		sp := &G1Spec{Prop: "C15", Alpha: []*BatchSpec{
			// the second batch carries a merge operand: a lone one reaches the persister unresolved
			{Ops: ops("S:a")}, {Ops: ops("M:a", "D:b")}, {Ops: ops("S:b"), Kids: kid("A", &BatchSpec{Ops: ops("S:a")})}},
			Configs: []Config{
				{Backing: "store", MinMergePct: 0.01, Concern: 2, MergeOp: true},
				{Backing: "store", MinMergePct: 100, Concern: 1, CachePersisted: true, MergeOp: true},
				{Backing: "store", MinMergePct: 100, Concern: 0, MergeOp: true},
			},
			Steps: []string{"M", "MA", "Pb", "Pe", "S+", "CS+", "I+", "IX", "SS+", "H-", "R"},
			// two persisted rounds leaving at least two live keys in the store, plus one batch still in memory
			// ... and one completed round followed by a round that is still in flight (the persister parked inside it)
			Roots: [][]string{{"B0", "M", "Pb", "Pe", "B2", "M", "Pb", "Pe", "B0"}, {"B2", "M", "Pb", "Pe", "B1"}, {"B0", "M", "Pb", "Pe", "B1", "M", "Pb"}},
			Devs:  []string{"m2"},
			MaxB:  2, MaxD: 7, MaxK: 1, MaxH: 2, MaxR: 1, Deadline: tierDeadline(tier), WithRefs: true,
			Note: "reference counters are part of the state key; oracle in every state: open handles still readable; terminal phase from every state: close the remaining handles, the collection and the store (quick: in the canonical order and its reverse; thorough: in every order), then no descriptor, no mapping, at most one data file"}
		if tier == "thorough" {
			sp.MaxB, sp.MaxD, sp.MaxK, sp.MaxH = 3, 9, 1, 3
			sp.Devs = []string{"m1", "p1", "m2", "p2"}
			sp.Configs = append(sp.Configs, Config{Backing: "store", MinMergePct: 0.01, Concern: 2, CachePersisted: true, IdleMS: 10, SleepBudget: 2, MergeOp: true})
		}
		sp.Check = func(w *World, path []string) []Violation {
			return append(withProp(w.viols, "C15"), w.handlesOracle("C15")...)
		}
		quick := tier != "thorough"
		sp.Terminal = func(w *World, variant int) ([]Violation, bool) {
			w.fewCloseOrders = quick
			return w.closeEverything("C15", variant)
		}
		return sp
	}
}
