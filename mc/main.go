// mossmc: bounded exhaustive exploration of couchbase/moss (see /verif/DESIGN.md).
package main

import (
	"encoding/json"
	"fmt"
	"github.com/couchbase/moss"
	"os"
	"path/filepath"
	"runtime"
	"runtime/pprof"
	"sort"
	"strconv"
	"strings"
	"time"
)

// outDir is where evidence and replay files are written (VERIF_OUT overrides; used for runs against seeded changes).
func outDir() string {
	if d := os.Getenv("VERIF_OUT"); d != "" {
		return d
	}
	return verifDir()
}

func verifDir() string {
	if d := os.Getenv("VERIF_DIR"); d != "" {
		return d
	}
	return "/verif"
}

// Finding is one entry of known_findings.json.
type Finding struct {
	ID        string `json:"id"`
	Property  string `json:"property"`
	Status    string `json:"status"` // open | fixed
	Signature string `json:"signature"`
	What      string `json:"what"`
	Witness   any    `json:"witness,omitempty"`
	Commit    string `json:"commit,omitempty"`
}

func loadFindings() []Finding {
	b, err := os.ReadFile(filepath.Join(verifDir(), "known_findings.json"))
	if err != nil {
		return nil
	}
	var f struct {
		Findings []Finding `json:"findings"`
	}
	if err := json.Unmarshal(b, &f); err != nil {
		fmt.Fprintln(os.Stderr, "known_findings.json:", err)
		os.Exit(2)
	}
	return f.Findings
}

// Evidence mirrors /root/.vp/EVIDENCE.schema.json.
type Evidence struct {
	PropertyID  string         `json:"property_id"`
	Tier        string         `json:"tier"`
	Seed        int            `json:"seed"`
	Level       string         `json:"level"`
	Coverage    map[string]any `json:"coverage"`
	Assumptions []string       `json:"assumptions"`
	WallS       float64        `json:"wall_s"`
	Violations  int            `json:"violations"`
}

var commonAssumptions = []string{
	"moss sources are taken from MOSS_SRC (default /repo) at check time and routed through the vsched cooperative scheduler by a syntactic, fail-closed rewrite; sync/atomic operations are not schedule points (they only maintain statistics counters)",
	"Linux, page size 4096 = StorePageSize, little endian, tmpfs semantics of the scratch directory",
	"Go map iteration order over sibling child collections is not enumerated",
	"bounds as stated in coverage.bound_completed; behaviours beyond them are not covered",
}

func seedFromEnv() int {
	n, _ := strconv.Atoi(os.Getenv("VERIF_SEED"))
	return n
}

func writeEvidence(ev *Evidence) {
	ev.Seed = seedFromEnv()
	if ev.Level == "" {
		ev.Level = "model_checking"
	}
	dir := filepath.Join(outDir(), "evidence")
	os.MkdirAll(dir, 0755)
	b, _ := json.MarshalIndent(ev, "", " ")
	if err := os.WriteFile(filepath.Join(dir, ev.PropertyID+".json"), append(b, '\n'), 0644); err != nil {
		fmt.Fprintln(os.Stderr, "cannot write evidence:", err)
		os.Exit(2)
	}
}

func writeReplay(prop string, body map[string]any) string {
	dir := filepath.Join(outDir(), "replays")
	os.MkdirAll(dir, 0755)
	b, _ := json.MarshalIndent(body, "", " ")
	name := fmt.Sprintf("%s-%s.json", prop, shortHash(string(b))[:10])
	p := filepath.Join(dir, name)
	os.WriteFile(p, append(b, '\n'), 0644)
	return p
}

// engines maps a property id to its check entry point.
var engines = map[string]func(prop, tier string) int{}

func main() {
	if len(os.Args) < 2 {
		fmt.Fprintln(os.Stderr, "usage: mossmc check <prop> [quick|thorough] | worker | replay <file> | list")
		os.Exit(2)
	}
	switch os.Args[1] {
	case "worker":
		workerMain()
	case "list":
		var ids []string
		for id := range engines {
			ids = append(ids, id)
		}
		sort.Strings(ids)
		fmt.Println(strings.Join(ids, " "))
	case "check":
		if len(os.Args) < 3 {
			os.Exit(2)
		}
		prop := os.Args[2]
		tier := "quick"
		if len(os.Args) > 3 {
			tier = os.Args[3]
		}
		if t := os.Getenv("VERIF_TIER"); t != "" && len(os.Args) <= 3 {
			tier = t
		}
		e, ok := engines[prop]
		if _, isSpec := g1Specs[prop]; !ok && isSpec && os.Getenv("VERIF_OUT") != "" {
			e, ok = checkG1, true // debugging: a single search of a group (evidence goes to the scratch output directory)
		}
		if !ok {
			fmt.Fprintln(os.Stderr, "no check for", prop)
			os.Exit(2)
		}
		os.Exit(e(prop, tier))
	case "expand": // debugging: expand <prop> <tier> <cfg> [step...]
		cfgI, _ := strconv.Atoi(os.Args[4])
		if pf := os.Getenv("VERIF_PROF"); pf != "" { // debugging: CPU profile of repeated expansions
			f, _ := os.Create(pf)
			runtime.MemProfileRate = 4096
			pprof.StartCPUProfile(f)
			for i := 0; i < 20; i++ {
				g1Expand(g1Req{Prop: os.Args[2], Tier: os.Args[3], Cfg: cfgI, Path: os.Args[5:]})
			}
			pprof.StopCPUProfile()
			f.Close()
			if mf, err := os.Create(pf + ".mem"); err == nil {
				pprof.Lookup("allocs").WriteTo(mf, 0)
				mf.Close()
			}
		}
		resp := g1Expand(g1Req{Prop: os.Args[2], Tier: os.Args[3], Cfg: cfgI, Path: os.Args[5:]})
		b, _ := json.MarshalIndent(resp, "", " ")
		fmt.Println(string(b))
	case "trace": // debugging: trace <prop> <tier> <cfg> [step...] prints the state key after every step
		cfgI, _ := strconv.Atoi(os.Args[4])
		sp := g1Specs[os.Args[2]](os.Args[3])
		w := NewWorld(sp.Configs[cfgI], sp.Alpha)
		for _, st := range os.Args[5:] {
			ok := w.Step(st)
			fmt.Printf("%-4s ok=%v infra=%q\n     %s\n     model=%s\n", st, ok, w.infra, w.Key(), w.model().Dump(nil))
		}
		if sp.Check != nil {
			fmt.Println("check:", sp.Check(w, os.Args[5:]))
		}
		w.Teardown()
	case "wlstats": // debugging: compaction kinds per round of the G3 workloads
		for i, wl := range workloads(false) {
			var kinds []string
			w, infra := runWorkload(wl, nil, func(w *World, st string, ok bool) bool {
				if st == "P" {
					f, p := storeCounters(w)
					n, _ := moss.VerifNumSegments(w.store)
					kinds = append(kinds, fmt.Sprintf("full=%d partial=%d segs=%d", f, p, n))
				}
				return true
			})
			fmt.Println(i, wl.Name, kinds, infra)
			w.Teardown()
		}
	case "wlsearch": // debugging: find round sequences of the G3 alphabet that end in a partial compaction
		base := workloads(false)[2]
		base.Cfg.CompactPct = 0.99
		var rec func(seq []int)
		found := 0
		rec = func(seq []int) {
			if len(seq) >= 3 {
				wl := base
				wl.Steps = nil
				for _, b := range seq {
					wl.Steps = append(wl.Steps, fmt.Sprintf("B%d", b), "M", "P")
				}
				var kinds []string
				w, _ := runWorkload(wl, nil, func(w *World, st string, ok bool) bool {
					if st == "P" {
						f, p := storeCounters(w)
						n, _ := moss.VerifNumSegments(w.store)
						kinds = append(kinds, fmt.Sprintf("f%d/p%d/s%d", f, p, n))
					}
					return true
				})
				_, p := storeCounters(w)
				w.Teardown()
				if p > 0 {
					fmt.Println(seq, kinds)
					found++
				}
			}
			if len(seq) == 5 || found > 12 {
				return
			}
			for b := 0; b < len(base.Alpha); b++ {
				rec(append(append([]int{}, seq...), b))
			}
		}
		rec(nil)
	case "c12one": // debugging: c12one <cfg> <target> <cont> <batch>...
		var seq []int
		for _, a := range os.Args[5:] {
			n, _ := strconv.Atoi(a)
			seq = append(seq, n)
		}
		ci, _ := strconv.Atoi(os.Args[2])
		tg, _ := strconv.Atoi(os.Args[3])
		ct, _ := strconv.Atoi(os.Args[4])
		res := c12Res{Outcomes: map[string]int{}}
		v := c12One(c12Configs()[ci], seq, tg, ct, &res)
		fmt.Println(v, res.Infra)
	case "replay":
		if len(os.Args) < 3 {
			os.Exit(2)
		}
		os.Exit(replayFile(os.Args[2]))
	default:
		fmt.Fprintln(os.Stderr, "unknown subcommand", os.Args[1])
		os.Exit(2)
	}
}

// checkG1 is the entry point of every G1-based property: it runs every search of the property's group.
func checkG1(prop, tier string) int {
	specs := g1Groups[prop]
	if len(specs) == 0 {
		specs = []string{prop}
	}
	t0 := time.Now()
	g1DeadlineShare = len(specs)
	findings := loadFindings()
	pool := NewPool()
	var confirmed []foundViolation
	unstable := 0
	agg := &g1Stats{Shapes: map[[5]int]int{}, PerCfg: map[string][2]int{}, Exhaustive: true, Known: map[string]int{}}
	var cfgNames, notes, caps []string
	var alphas []any
	bounds := map[string]any{}
	var firstSp *G1Spec
	for _, name := range specs {
		st, sp := runG1(name, tier)
		if firstSp == nil {
			firstSp = sp
		}
		// confirm every new violation by re-executing it in fresh processes
		for _, fv := range st.Violations {
			okAll := true
			n := len(fv.Path)
			var prefix []string
			last := "."
			if n > 0 {
				prefix, last = fv.Path[:n-1], fv.Path[n-1]
			}
			ci := 0
			for i, c := range sp.Configs {
				if c.String() == fv.Cfg.String() {
					ci = i
				}
			}
			for rep := 0; rep < 4 && okAll; rep++ {
				r := pool.RunOne(Job{Kind: "g1expand", Data: mustJSON(g1Req{Prop: name, Tier: tier, Cfg: ci, Path: prefix, Only: last})})
				if strings.HasPrefix(fv.V.Sig, "crash|") || strings.HasPrefix(fv.V.Sig, "hang|") {
					okAll = r.Crashed || r.Err != ""
					continue
				}
				var resp g1Resp
				if r.Crashed || json.Unmarshal(r.Data, &resp) != nil {
					okAll = false
					break
				}
				found := false
				for _, s := range resp.Succ {
					for _, v := range s.Viols {
						if v.Sig == fv.V.Sig {
							found = true
						}
					}
				}
				okAll = found
			}
			if okAll {
				confirmed = append(confirmed, fv)
				p := writeReplay(prop, map[string]any{"property": prop, "engine": "G1", "spec": name, "tier": tier, "config": fv.Cfg, "path": fv.Path,
					"signature": fv.V.Sig, "message": fv.V.Msg, "batch_alphabet": sp.Alpha})
				fmt.Printf("VIOLATION property=%s replay=%s\n", prop, p)
				fmt.Fprintf(os.Stderr, "  cfg=%s path=%v\n  %s\n", fv.Cfg, fv.Path, fv.V.Msg)
			} else {
				unstable++
				fmt.Fprintf(os.Stderr, "UNSTABLE (not reproduced 5/5, not reported as violation): cfg=%s path=%v sig=%s\n", fv.Cfg, fv.Path, fv.V.Sig)
			}
		}
		agg.States += st.States
		agg.Transitions += st.Transitions
		agg.Infra += st.Infra
		agg.KnownPruned += st.KnownPruned
		agg.Killed += st.Killed
		agg.Terminals += st.Terminals
		agg.Skipped += st.Skipped
		agg.AfterFull += st.AfterFull
		agg.AfterPartial += st.AfterPartial
		agg.Exhaustive = agg.Exhaustive && st.Exhaustive
		if st.Cap != "" {
			caps = append(caps, name+": "+st.Cap)
		}
		for k, v := range st.Shapes {
			agg.Shapes[k] += v
		}
		for k, v := range st.PerCfg {
			agg.PerCfg[name+":"+k] = v
		}
		for k, v := range st.Known {
			agg.Known[k] += v
		}
		agg.Samples = append(agg.Samples, st.Samples...)
		for _, c := range sp.Configs {
			cfgNames = append(cfgNames, name+":"+c.String())
		}
		notes = append(notes, sp.Note)
		alphas = append(alphas, map[string]any{"spec": name, "batches": sp.Alpha, "steps": append(append([]string{}, sp.Steps...), sp.Devs...)})
		bounds[name] = map[string]any{"batches": sp.MaxB, "steps_completed": st.Depth, "steps_target": sp.MaxD, "deviations": sp.MaxK, "reopens": sp.MaxR}
	}
	st := agg
	for _, f := range findings {
		if f.Status == "open" && f.Property == prop && st.Known[f.ID] > 0 {
			fmt.Printf("KNOWN-FINDING: property=%s %s (%s; %d occurrences in this run)\n", prop, f.What, f.ID, st.Known[f.ID])
		}
	}
	nontrivial := 0
	for k := range st.Shapes {
		n := 0
		for _, h := range k {
			if h > 0 {
				n++
			}
		}
		if n >= 2 {
			nontrivial++
		}
	}
	if len(st.Samples) == 0 {
		st.Samples = append(st.Samples, map[string]any{"config": cfgNames[0], "path": []string{}})
	}
	if len(st.Samples) > 8 {
		st.Samples = st.Samples[:8]
	}
	ev := &Evidence{PropertyID: prop, Tier: tier, Violations: len(confirmed), WallS: time.Since(t0).Seconds(), Assumptions: commonAssumptions,
		Coverage: map[string]any{
			"states":                        st.States,
			"transitions":                   st.Transitions,
			"traces_validated_against_impl": st.Transitions,
			"evaluations":                   st.Transitions + len(cfgNames),
			"distinct_nontrivial":           nontrivial,
			"rule": "breadth-first search over step sequences on the real implementation (one search per configuration); a state is distinct by the canonical key of moss's private state at the quiescent point (plus budgets used); " +
				"distinct_nontrivial counts distinct (top,mid,base,clean,lower) section-height tuples with at least two non-empty sections; " +
				"every transition is an execution of the implementation itself (no separate model), hence traces_validated_against_impl = transitions",
			"samples":                             st.Samples,
			"exhaustive":                          st.Exhaustive && st.Infra == 0,
			"cap_hit":                             strings.Join(caps, "; "),
			"bound_completed":                     bounds,
			"configurations":                      cfgNames,
			"states_per_config":                   st.PerCfg,
			"section_height_tuples":               shapesList(st.Shapes),
			"states_showing_only_a_known_finding": st.KnownPruned,
			"known_findings_hit":                  st.Known,
			"infrastructure_errors":               st.Infra,
			"unstable_violations":                 unstable,
			"threads_killed_at_teardown":          st.Killed,
			"terminal_phase_runs":                 st.Terminals,
			"transitions_into_states_after_a_full_compaction":    st.AfterFull,
			"transitions_into_states_after_a_partial_compaction": st.AfterPartial,
			"alphabets": alphas,
			"note":      strings.Join(notes, " || "),
		}}
	writeEvidence(ev)
	fmt.Fprintf(os.Stderr, "[%s %s] states=%d transitions=%d shapes=%d violations=%d known=%v infra=%d exhaustive=%v afterfull=%d afterpartial=%d wall=%.1fs\n",
		prop, tier, st.States, st.Transitions, len(st.Shapes), len(confirmed), st.Known, st.Infra, st.Exhaustive, st.AfterFull, st.AfterPartial, time.Since(t0).Seconds())
	_ = firstSp
	if len(confirmed) > 0 {
		return 1
	}
	if unstable > 0 || (st.Infra > 0 && st.States == 0) {
		return 2
	}
	return 0
}

func replayFile(path string) int {
	b, err := os.ReadFile(path)
	if err != nil {
		fmt.Fprintln(os.Stderr, err)
		return 2
	}
	var r struct {
		Property string   `json:"property"`
		Engine   string   `json:"engine"`
		Tier     string   `json:"tier"`
		Config   Config   `json:"config"`
		Path     []string `json:"path"`
	}
	if err := json.Unmarshal(b, &r); err != nil {
		fmt.Fprintln(os.Stderr, err)
		return 2
	}
	if h, ok := replayers[r.Engine]; ok {
		return h(b)
	}
	fmt.Fprintln(os.Stderr, "no replayer for engine", r.Engine)
	return 2
}

func init() {
	// a fault plan of engine G3 (C06, and C15's I/O failure family): re-run the workload under the recorded fault
	replayers["G3"] = func(raw []byte) int {
		var r struct {
			Property string     `json:"property"`
			Workload *int       `json:"workload"`
			Fault    *faultSpec `json:"fault"`
		}
		json.Unmarshal(raw, &r)
		if r.Workload == nil || r.Fault == nil || *r.Workload < 0 || *r.Workload >= len(c06Workloads()) {
			fmt.Fprintln(os.Stderr, "this replay file does not describe a fault plan (crash images are re-executed by running the check)")
			return 2
		}
		res := c06Res{Outcomes: map[string]int{}}
		c06One(c06Workloads()[*r.Workload], *r.Fault, &res)
		rc := 0
		for _, v := range append(res.Viols, res.Viols15...) {
			if v.Prop == r.Property || r.Property == "" {
				fmt.Printf("VIOLATION property=%s replay=%s\n  %s\n", v.Prop, os.Args[2], v.Msg)
				rc = 1
			}
		}
		if rc == 0 {
			fmt.Println("no violation on replay; outcomes:", res.Outcomes, res.Infra)
		}
		return rc
	}
	// one schedule of engine G2 (C03, C16)
	replayers["G2"] = func(raw []byte) int {
		var r struct {
			Property string `json:"property"`
			Tier     string `json:"tier"`
			Program  int    `json:"program"`
			Desc     bool   `json:"desc"`
			Schedule []int  `json:"schedule"`
		}
		json.Unmarshal(raw, &r)
		mk, ok := g2Programs[r.Property]
		if !ok || r.Schedule == nil {
			fmt.Fprintln(os.Stderr, "this replay file does not describe a schedule of a G2 program")
			return 2
		}
		progs := mk(r.Tier)
		if r.Program < 0 || r.Program >= len(progs) {
			fmt.Fprintln(os.Stderr, "program not part of the check any more")
			return 2
		}
		x := g2Execute(progs[r.Program], r.Schedule, r.Desc, true)
		for _, l := range x.trace {
			fmt.Println("  ", l)
		}
		if x.infra != "" {
			fmt.Fprintln(os.Stderr, "infrastructure:", x.infra)
			return 2
		}
		rc := 0
		for _, v := range x.viols {
			fmt.Printf("VIOLATION property=%s replay=%s\n  %s\n", r.Property, os.Args[2], v.Msg)
			rc = 1
		}
		if rc == 0 {
			fmt.Println("no violation on replay; outcome:", x.outcome)
		}
		return rc
	}
}

var replayers = map[string]func(raw []byte) int{
	"G1": func(raw []byte) int {
		var r struct {
			Property string   `json:"property"`
			Spec     string   `json:"spec"`
			Tier     string   `json:"tier"`
			Config   Config   `json:"config"`
			Path     []string `json:"path"`
		}
		json.Unmarshal(raw, &r)
		if r.Spec == "" {
			r.Spec = r.Property
		}
		sp := g1Specs[r.Spec](r.Tier)
		ci := -1
		for i, c := range sp.Configs {
			if c.String() == r.Config.String() {
				ci = i
			}
		}
		if ci < 0 {
			fmt.Fprintln(os.Stderr, "configuration not part of the spec any more")
			return 2
		}
		n := len(r.Path)
		prefix, last := []string(nil), "."
		if n > 0 {
			prefix, last = r.Path[:n-1], r.Path[n-1]
		}
		resp := g1Expand(g1Req{Prop: r.Spec, Tier: r.Tier, Cfg: ci, Path: prefix, Only: last})
		rc := 0
		for _, s := range resp.Succ {
			for _, v := range s.Viols {
				fmt.Printf("VIOLATION property=%s replay=%s\n  %s\n", r.Property, os.Args[2], v.Msg)
				rc = 1
			}
		}
		if rc == 0 {
			fmt.Println("no violation on replay")
		}
		return rc
	},
}
