package main

import (
	"bufio"
	"bytes"
	"encoding/json"
	"fmt"
	"io"
	"os"
	"os/exec"
	"runtime"
	"strings"
	"sync"
	"syscall"
	"time"
)

// Job is one unit of work handed to a worker subprocess.
type Job struct {
	Kind string          `json:"kind"`
	Data json.RawMessage `json:"data"`
}

// JobResult is what comes back; Crashed is set by the parent when the worker died or timed out.
type JobResult struct {
	Data    json.RawMessage `json:"data,omitempty"`
	Err     string          `json:"err,omitempty"`
	Crashed bool            `json:"crashed,omitempty"`
	Skipped bool            `json:"skipped,omitempty"` // not started because the pool deadline had passed
	Timeout bool            `json:"timeout,omitempty"`
	Stderr  string          `json:"stderr,omitempty"`
}

type workerProc struct {
	cmd    *exec.Cmd
	in     io.WriteCloser
	out    *bufio.Reader
	stderr *tailBuffer
	jobs   int
}

type tailBuffer struct {
	mu  sync.Mutex
	buf []byte
}

func (t *tailBuffer) Write(p []byte) (int, error) {
	t.mu.Lock()
	t.buf = append(t.buf, p...)
	if len(t.buf) > 131072 {
		t.buf = t.buf[len(t.buf)-131072:]
	}
	t.mu.Unlock()
	return len(p), nil
}

func (t *tailBuffer) String() string {
	t.mu.Lock()
	defer t.mu.Unlock()
	return string(t.buf)
}

// Pool runs jobs on worker subprocesses (one job at a time per worker, GOMAXPROCS=1 each).
type Pool struct {
	N          int
	JobTimeout time.Duration
	Recycle    int // jobs per worker process before it is replaced
	Env        []string
	Exe        string    // worker executable (default: this executable)
	Deadline   time.Time // when set: jobs not yet started at this time are skipped
}

func NewPool() *Pool {
	n := runtime.NumCPU()
	if n > 16 {
		n = 16
	}
	if v := os.Getenv("VERIF_WORKERS"); v != "" {
		fmt.Sscan(v, &n)
	}
	return &Pool{N: n, JobTimeout: 180 * time.Second, Recycle: 400}
}

func (p *Pool) start() (*workerProc, error) {
	exe := p.Exe
	if exe == "" {
		exe = os.Args[0]
	}
	cmd := exec.Command(exe, "worker")
	cmd.Env = append(os.Environ(), "GOMAXPROCS=1", "GOTRACEBACK=single")
	cmd.Env = append(cmd.Env, p.Env...)
	in, err := cmd.StdinPipe()
	if err != nil {
		return nil, err
	}
	out, err := cmd.StdoutPipe()
	if err != nil {
		return nil, err
	}
	tb := &tailBuffer{}
	cmd.Stderr = tb
	cmd.SysProcAttr = &syscall.SysProcAttr{Pdeathsig: syscall.SIGKILL}
	if err := cmd.Start(); err != nil {
		return nil, err
	}
	return &workerProc{cmd: cmd, in: in, out: bufio.NewReaderSize(out, 1<<20), stderr: tb}, nil
}

func (w *workerProc) stop() {
	w.in.Close()
	done := make(chan struct{})
	go func() { w.cmd.Wait(); close(done) }()
	select {
	case <-done:
	case <-time.After(2 * time.Second):
		w.cmd.Process.Kill()
		<-done
	}
}

func (w *workerProc) kill() {
	w.cmd.Process.Kill()
	w.cmd.Wait()
}

func (w *workerProc) do(job Job, timeout time.Duration) JobResult {
	b, _ := json.Marshal(job)
	b = append(b, '\n')
	if _, err := w.in.Write(b); err != nil {
		return JobResult{Crashed: true, Stderr: "write to worker: " + err.Error() + "\n" + w.stderr.String()}
	}
	type rd struct {
		line []byte
		err  error
	}
	ch := make(chan rd, 1)
	go func() {
		line, err := w.out.ReadBytes('\n')
		ch <- rd{line, err}
	}()
	select {
	case r := <-ch:
		if r.err != nil {
			w.cmd.Wait()
			return JobResult{Crashed: true, Stderr: fmt.Sprintf("worker died (%v): %s", w.cmd.ProcessState, w.stderr.String())}
		}
		var res JobResult
		if err := json.Unmarshal(bytes.TrimSpace(r.line), &res); err != nil {
			return JobResult{Crashed: true, Stderr: "bad worker reply: " + err.Error() + ": " + string(r.line)}
		}
		return res
	case <-time.After(timeout):
		// ask for a goroutine dump, then kill
		w.cmd.Process.Signal(syscall.SIGQUIT)
		time.Sleep(300 * time.Millisecond)
		w.kill()
		return JobResult{Crashed: true, Timeout: true, Stderr: w.stderr.String()}
	}
}

// Run executes all jobs and returns results in job order.  A crashed worker is replaced.
func (p *Pool) Run(jobs []Job) []JobResult {
	results := make([]JobResult, len(jobs))
	n := p.N
	if n > len(jobs) {
		n = len(jobs)
	}
	if n == 0 {
		return results
	}
	var next int
	var mu sync.Mutex
	var wg sync.WaitGroup
	for i := 0; i < n; i++ {
		wg.Add(1)
		go func() {
			defer wg.Done()
			var w *workerProc
			defer func() {
				if w != nil {
					w.stop()
				}
			}()
			for {
				mu.Lock()
				j := next
				next++
				mu.Unlock()
				if j >= len(jobs) {
					return
				}
				if !p.Deadline.IsZero() && time.Now().After(p.Deadline) {
					results[j] = JobResult{Skipped: true}
					continue
				}
				if w == nil {
					var err error
					w, err = p.start()
					if err != nil {
						results[j] = JobResult{Crashed: true, Stderr: "cannot start worker: " + err.Error()}
						continue
					}
				}
				res := w.do(jobs[j], p.JobTimeout)
				results[j] = res
				w.jobs++
				if res.Crashed {
					w.kill()
					w = nil
				} else if w.jobs >= p.Recycle {
					w.stop()
					w = nil
				}
			}
		}()
	}
	wg.Wait()
	return results
}

// RunOne executes a single job in a fresh worker process.
func (p *Pool) RunOne(job Job) JobResult {
	w, err := p.start()
	if err != nil {
		return JobResult{Crashed: true, Stderr: err.Error()}
	}
	res := w.do(job, p.JobTimeout)
	if res.Crashed {
		w.kill()
	} else {
		w.stop()
	}
	return res
}

// workerHandlers maps job kinds to their implementation inside the worker.
var workerHandlers = map[string]func(json.RawMessage) (any, error){}

// workerMain is the body of `mossmc worker`.
func workerMain() {
	// address-space limit: an unbounded allocation must kill this worker, not the machine
	var lim syscall.Rlimit
	lim.Cur, lim.Max = 24<<30, 24<<30
	syscall.Setrlimit(syscall.RLIMIT_AS, &lim)
	out := os.NewFile(uintptr(syscall.Stdout), "proto")
	proto, _ := syscall.Dup(int(out.Fd()))
	protoF := os.NewFile(uintptr(proto), "proto")
	syscall.Dup2(int(os.Stderr.Fd()), int(os.Stdout.Fd())) // stray prints go to stderr
	in := bufio.NewReaderSize(os.Stdin, 1<<20)
	enc := bufio.NewWriter(protoF)
	for {
		line, err := in.ReadBytes('\n')
		if len(bytes.TrimSpace(line)) > 0 {
			var job Job
			var res JobResult
			if e := json.Unmarshal(line, &job); e != nil {
				res.Err = "bad job: " + e.Error()
			} else if h, ok := workerHandlers[job.Kind]; !ok {
				res.Err = "unknown job kind " + job.Kind
			} else {
				v, e := h(job.Data)
				if e != nil {
					res.Err = e.Error()
				} else {
					res.Data, _ = json.Marshal(v)
				}
			}
			b, _ := json.Marshal(res)
			enc.Write(b)
			enc.WriteByte('\n')
			enc.Flush()
		}
		if err != nil {
			return
		}
	}
}

func mustJSON(v any) json.RawMessage {
	b, err := json.Marshal(v)
	if err != nil {
		panic(err)
	}
	return b
}

// crashViolation decides what a crashed or failed worker job means.  The job is run again, twice, in fresh workers:
// when it fails every time it is reported as a violation - a fault (e.g. reading unmapped memory) or panic inside
// moss on this input is one, and a defect of the harness would be mine to repair; either way the check must not
// stay silent.  A job that succeeds when repeated was a transient failure and is counted as an infrastructure error.
func crashViolation(pool *Pool, prop string, job Job, r JobResult) *Violation {
	if r.Timeout || r.Skipped {
		return nil
	}
	if w0 := crashSite(r.Stderr); crashReported[prop+"|"+w0] {
		return nil // the same crash site has been confirmed and reported for an earlier job of this run
	}
	last := r
	for rep := 0; rep < 2; rep++ {
		rr := pool.RunOne(job)
		if !rr.Crashed && rr.Err == "" {
			return nil
		}
		if rr.Timeout {
			return nil
		}
		last = rr
	}
	where := crashSite(last.Stderr)
	crashReported[prop+"|"+where] = true
	return &Violation{Prop: prop, Sig: "crash|" + where + "|any",
		Msg: fmt.Sprintf("the worker process running job %s died (3 of 3 runs): %s %s", string(job.Data), last.Err, tail(last.Stderr, 1500))}
}

var crashReported = map[string]bool{}

// crashSite names the first moss function in a crash report (or "worker").
func crashSite(stderr string) string {
	// start at the last crash marker: the trace of the goroutine that died comes first after it
	for _, marker := range []string{"fatal error:", "panic:", "unexpected fault address"} {
		if i := strings.LastIndex(stderr, marker); i >= 0 {
			stderr = stderr[i:]
			break
		}
	}
	for _, line := range strings.Split(stderr, "\n") {
		if i := strings.Index(line, "github.com/couchbase/moss."); i >= 0 && !strings.Contains(line, "Verif") {
			where := strings.TrimSpace(line[i+len("github.com/couchbase/moss."):])
			if j := strings.LastIndex(where, "("); j > 0 {
				where = where[:j] // drop the argument list
			}
			return where
		}
	}
	return "worker"
}

// g4Deadline caps the finite enumerations of engines G3 / G4: they normally finish well inside it; on an overloaded
// machine the remaining jobs are skipped and the evidence says so (exhaustive:false, cap_hit) instead of running on.
func g4Deadline(tier string) time.Duration {
	if tier == "thorough" {
		return 20 * time.Minute
	}
	return 6 * time.Minute
}

func countSkipped(results []JobResult) int {
	n := 0
	for _, r := range results {
		if r.Skipped {
			n++
		}
	}
	return n
}
