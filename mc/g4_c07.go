package main

import (
	"encoding/json"
	"fmt"
	"os"
	"sort"
	"strings"
	"time"

	"github.com/couchbase/moss"
)

// C07 - compaction never changes content and reclaims garbage (store-level enumeration over round sequences x option grid).

var c07Big = strings.Repeat("B", 5000)

var c07Alpha = []*BatchSpec{
	kv("k1", "$"),
	kv("k1", "$", "k2", "$", "k3", "$"),
	kv("big", c07Big),
	kv("k1", "<del>", "k4", "$"),
	kv("k2", "$"),
	{Ops: kv("k3", "<del>").Ops, Kids: kid("A", kv("x", "$"))},
	kv("zz", "<del>", "k0", "$"), // deletion of a key that was never set and sorts after every other key
	{DelKids: []string{"A"}},
	{Kids: kid("A", kv("y", "$"))},
	{Ops: kv("big", c07Big).Ops, Kids: kid("A", kv("w", "$"))}, // a large first segment for the top level and a segment of A next to it
	{Ops: kv("k1", "$").Ops, Kids: kid("A", kv("y", "$"))},     // recreation of A together with top-level data (no top-level data => full compaction)
	{Ops: kv("k2", "$").Ops, Kids: kid("A", kv("w", "<del>"))}, // deletion of a key inside child A (its value may sit below the splice point)
}

// c07Rounds: what is executed between two persistence rounds (usually one batch; the last entry deletes child
// collection A and recreates it with another key within the same round).
// The last three rounds (big value + child A; A deleted and recreated next to a top-level write; deletion of a key
// inside A) are only used by the
// child-collection family.
var c07Rounds = [][]int{{0}, {1}, {2}, {3}, {4}, {5}, {6}, {7, 8}, {9}, {7, 10}, {11}, {}}

// c07IdleRound: a round without data (a "mergeAll" ping on an idle collection) - the path an idle compaction takes:
// the persister hands the store an empty stack, newDataSize is 0 and CompactionAllow compacts everything.
const c07IdleRound = 11

const c07GeneralRounds = 8

func c07Unused() {
}

func c07Configs(tier string) []Config {
	mk := func(cc, segs, mult int, pct float64, pages int, nosync bool) Config {
		return Config{Backing: "store", MinMergePct: 100, Concern: cc, MaxSegs: segs, Mult: mult, CompactPct: pct, BufPages: pages, NoSync: nosync}
	}
	if tier != "thorough" {
		return []Config{
			mk(0, 2, 2, 0.65, 512, false),
			mk(1, 2, 2, 0.99, 512, false),
			mk(1, 3, 2, 0.65, 1, true),
			mk(1, 1, 9, 0.01, 512, false),
			mk(2, 2, 2, 0.65, 1, false),
			mk(1, 2, 9, 0.99, 512, true),
		}
	}
	var out []Config
	for _, cc := range []int{0, 1, 2} {
		for _, segs := range []int{1, 2, 3} {
			for _, mult := range []int{2, 9} {
				for _, pct := range []float64{0.01, 0.65, 0.99} {
					for _, pages := range []int{1, 512} {
						if cc != 1 && (segs != 2 || mult != 2 || pct != 0.65) {
							continue // level parameters only matter for CompactionAllow
						}
						out = append(out, mk(cc, segs, mult, pct, pages, pages == 1))
					}
				}
			}
		}
	}
	return out
}

type c07Job struct {
	Cfg  Config  `json:"cfg"`
	Seqs [][]int `json:"seqs"`
}

type c07Res struct {
	Rounds  int            `json:"rounds"`
	Seqs    int            `json:"seqs"`
	Full    int            `json:"full"`
	Partial int            `json:"partial"`
	Splices map[string]int `json:"splices"` // "segments before -> after (kind)"
	Viols   []Violation    `json:"viols,omitempty"`
	Sample  string         `json:"sample,omitempty"`
	Infra   string         `json:"infra,omitempty"`
}

func init() {
	workerHandlers["c07"] = func(data json.RawMessage) (any, error) {
		var j c07Job
		if err := json.Unmarshal(data, &j); err != nil {
			return nil, err
		}
		return c07Run(j), nil
	}
	engines["C07"] = checkC07
}

func storeCounters(w *World) (full, partial int) {
	st, err := w.store.Stats()
	if err != nil {
		return 0, 0
	}
	a, _ := st["total_compactions"].(uint64)
	b, _ := st["total_compactions_partial"].(uint64)
	return int(a), int(b)
}

// deletionsIn walks a store snapshot (recursively) with IncludeDeletions and returns the deletion entries and duplicate keys it meets.
func deletionsIn(ss moss.Snapshot, path string) (dels []string, dups []string) {
	it, err := ss.StartIterator(nil, nil, moss.IteratorOptions{IncludeDeletions: true, SkipLowerLevel: true})
	if err == nil && it != nil {
		seen := map[string]bool{}
		for n := 0; n < 100000; n++ {
			ex, k, _, err := it.CurrentEx()
			if err != nil {
				break
			}
			if ex.Operation == moss.OperationDel {
				dels = append(dels, path+string(k))
			}
			if seen[string(k)] {
				dups = append(dups, path+string(k))
			}
			seen[string(k)] = true
			if it.Next() != nil {
				break
			}
		}
		it.Close()
	}
	names, _ := ss.ChildCollectionNames()
	sort.Strings(names)
	for _, n := range names {
		if cs, err := ss.ChildCollectionSnapshot(n); err == nil && cs != nil {
			d2, u2 := deletionsIn(cs, path+n+"/")
			dels, dups = append(dels, d2...), append(dups, u2...)
			cs.Close()
		}
	}
	return
}

func dataFiles(dir string) []string {
	var out []string
	ents, _ := os.ReadDir(dir)
	for _, e := range ents {
		if isDataFile(e.Name()) {
			out = append(out, e.Name())
		}
	}
	return out
}

func c07One(cfg Config, seq []int, res *c07Res) *Violation {
	w := NewWorld(cfg, c07Alpha)
	defer w.Teardown()
	w.probes = []string{"k0", "k1", "k2", "k3", "k4", "big", "x", "y", "w", "zz"}
	if w.infra != "" {
		res.Infra = w.infra
		return nil
	}
	res.Seqs++
	for ri, bi := range seq {
		where := fmt.Sprintf("options %s, rounds %v, after round %d", cfg, seq, ri+1)
		segBefore, _ := moss.VerifNumSegments(w.store)
		full0, part0 := storeCounters(w)
		var steps []string
		for _, b := range c07Rounds[bi] {
			steps = append(steps, fmt.Sprintf("B%d", b))
		}
		steps = append(steps, "M")
		if len(c07Rounds[bi]) == 0 {
			steps = []string{"MA"}
		}
		for _, st := range steps {
			if !w.Step(st) {
				res.Infra = where + ": step " + st + " not enabled"
				return nil
			}
		}
		if len(c07Rounds[bi]) == 0 && (w.persister == nil || !w.s.Enabled(w.persister)) {
			// nothing was ever written: the merger has no stack to hand down, there is no round
			res.Splices["idle round without any data: no persistence round"]++
			continue
		}
		ok, _ := w.PersistRound(0)
		res.Rounds++
		if p := w.threadPanicked(); p != "" {
			return &Violation{Prop: "C07", Sig: "panic|round|any", Msg: where + ": " + p}
		}
		if !ok || w.infra != "" {
			return &Violation{Prop: "C07", Sig: "round-fails|round|any", Msg: fmt.Sprintf("%s: the persistence round failed without any injected fault (OnError calls: %d) %s", where, w.onErrors, w.infra)}
		}
		full1, part1 := storeCounters(w)
		segAfter, segAny := moss.VerifNumSegments(w.store)
		kind := "append"
		if full1 > full0 {
			kind = "full"
			res.Full++
		} else if part1 > part0 {
			kind = "partial"
			res.Partial++
		}
		res.Splices[fmt.Sprintf("%d -> %d (%s)", segBefore, segAfter, kind)]++
		// content: store == reference (== content before the round plus the round's batch), collection == reference
		p, d := w.storePrefix()
		if p != len(w.models)-1 {
			class, detail := DiffDumps(w.model().DumpT(w.probes), d, "Store.Snapshot")
			return &Violation{Prop: "C07", Sig: "content-changed:" + class + "|" + kind + "|any",
				Msg: fmt.Sprintf("%s (%s, segments %d -> %d): %s\n  expected %s\n  observed %s", where, kind, segBefore, segAfter, detail, w.model().DumpT(w.probes), d)}
		}
		if vs := w.snapshotOracle("C07"); len(vs) > 0 {
			v := vs[0]
			v.Sig = "collection-" + strings.SplitN(v.Sig, "|", 2)[0] + "|" + kind + "|any"
			v.Msg = where + " (" + kind + "): " + v.Msg
			return &v
		}
		// what is on disk right now must reopen to the same content (a partial compaction's footer must be complete)
		if v := w.reopenCopyOracle("C07", w.model().DumpT(w.probes), "after-"+kind); v != nil {
			v.Msg = where + " (" + kind + "): " + v.Msg
			return v
		}
		if kind == "full" {
			if segAny > 1 {
				return &Violation{Prop: "C07", Sig: "full-compaction-leaves-segments|full|any", Msg: fmt.Sprintf("%s: after a full compaction some collection has %d persisted segments", where, segAny)}
			}
			ss, _ := w.store.Snapshot()
			dels, dups := deletionsIn(ss, "")
			ss.Close()
			if len(dels) > 0 {
				return &Violation{Prop: "C07", Sig: "full-compaction-keeps-deletions|full|any", Msg: fmt.Sprintf("%s: after a full compaction the store still holds deletion markers for %q", where, dels)}
			}
			if len(dups) > 0 {
				return &Violation{Prop: "C07", Sig: "full-compaction-duplicate-keys|full|any", Msg: fmt.Sprintf("%s: after a full compaction keys %q occur more than once", where, dups)}
			}
		}
	}
	// once everything is closed, only the current data file is left
	w.closeAll()
	if w.infra != "" {
		res.Infra = w.infra
		return nil
	}
	w.runAll()
	if files := dataFiles(w.dir); len(files) > 1 {
		return &Violation{Prop: "C07", Sig: "superseded-file-not-removed|close|any", Msg: fmt.Sprintf("options %s, rounds %v: after closing collection and store the directory still holds %v", cfg, seq, files)}
	}
	return nil
}

func c07Run(j c07Job) (res c07Res) {
	res.Splices = map[string]int{}
	defer func() {
		if r := recover(); r != nil {
			res.Viols = append(res.Viols, Violation{Prop: "C07", Sig: "panic|harness|any", Msg: fmt.Sprint("panic: ", r)})
		}
	}()
	for _, seq := range j.Seqs {
		if v := c07One(j.Cfg, seq, &res); v != nil {
			res.Viols = append(res.Viols, *v)
			if len(res.Viols) >= 4 {
				return
			}
		}
		if res.Infra != "" {
			return
		}
		if res.Sample == "" {
			res.Sample = fmt.Sprintf("options %s: rounds with batches %v; after every round store == collection == reference; compaction kinds seen so far %v", j.Cfg, seq, res.Splices)
		}
	}
	return
}

func checkC07(prop, tier string) int {
	t0 := time.Now()
	rounds := 4
	if tier == "thorough" {
		rounds = 5
	}
	var seqs [][]int
	var gen func(cur []int)
	gen = func(cur []int) {
		if len(cur) == rounds {
			seqs = append(seqs, append([]int{}, cur...))
			return
		}
		for i := 0; i < c07GeneralRounds; i++ {
			gen(append(cur, i))
		}
	}
	gen(nil)
	// child-collection family: longer sequences over a sub-alphabet (large value + child A; child A written; A deleted
	// and recreated within one round; one key), so that a recreated child meets persisted segments of its predecessor
	// below the splice point of a partial compaction
	var childSeqs [][]int
	childRounds, childAlpha := 5, []int{8, 5, 9, 10, 0}
	if tier == "thorough" {
		childRounds, childAlpha = 6, []int{8, 5, 9, 10, 7, 0}
	}
	var genChild func(cur []int)
	genChild = func(cur []int) {
		if len(cur) == childRounds {
			childSeqs = append(childSeqs, append([]int{}, cur...))
			return
		}
		for _, i := range childAlpha {
			genChild(append(cur, i))
		}
	}
	genChild(nil)
	// idle family: rounds without data between rounds with data (one key, a large value, delete + insert)
	var idleSeqs [][]int
	idleRounds := 4
	if tier == "thorough" {
		idleRounds = 5
	}
	var genIdle func(cur []int)
	genIdle = func(cur []int) {
		if len(cur) == idleRounds {
			idleSeqs = append(idleSeqs, append([]int{}, cur...))
			return
		}
		for _, i := range []int{0, 2, 3, c07IdleRound} {
			genIdle(append(cur, i))
		}
	}
	genIdle(nil)
	var jobs []Job
	cfgs := c07Configs(tier)
	addJobs := func(cfg Config, seqs [][]int) {
		for i := 0; i < len(seqs); i += 24 {
			k := i + 24
			if k > len(seqs) {
				k = len(seqs)
			}
			jobs = append(jobs, Job{Kind: "c07", Data: mustJSON(c07Job{Cfg: cfg, Seqs: seqs[i:k]})})
		}
	}
	for _, cfg := range cfgs {
		if cfg.Concern == 1 {
			addJobs(cfg, childSeqs) // first, so that a deadline cuts the general family rather than this one
			addJobs(cfg, idleSeqs)
		}
	}
	for _, cfg := range cfgs {
		addJobs(cfg, seqs)
	}
	pool := NewPool()
	pool.Deadline = time.Now().Add(tierDeadline(tier))
	results := pool.Run(jobs)
	var tot c07Res
	tot.Splices = map[string]int{}
	infra, skipped := 0, 0
	var viols []Violation
	seen := map[string]bool{}
	var samples []any
	for i, r := range results {
		if r.Skipped {
			skipped++
			continue
		}
		if r.Crashed || r.Err != "" {
			if v := crashViolation(pool, "C07", jobs[i], r); v != nil {
				viols = append(viols, *v)
				continue
			}
			infra++
			fmt.Fprintf(os.Stderr, "INFRA: c07 job %d: %s %s\n", i, r.Err, tail(r.Stderr, 600))
			continue
		}
		var cr c07Res
		json.Unmarshal(r.Data, &cr)
		if cr.Infra != "" {
			infra++
			fmt.Fprintf(os.Stderr, "INFRA: c07 job %d: %s\n", i, cr.Infra)
		}
		tot.Rounds += cr.Rounds
		tot.Seqs += cr.Seqs
		tot.Full += cr.Full
		tot.Partial += cr.Partial
		for k, v := range cr.Splices {
			tot.Splices[k] += v
		}
		if cr.Sample != "" && len(samples) < 5 && i%13 == 0 {
			samples = append(samples, cr.Sample)
		}
		for _, v := range cr.Viols {
			if !seen[v.Sig] {
				seen[v.Sig] = true
				viols = append(viols, v)
			}
		}
	}
	viols = reportViolations("C07", "G1", viols)
	if len(samples) == 0 {
		samples = append(samples, "none")
	}
	var cfgNames []string
	for _, c := range cfgs {
		cfgNames = append(cfgNames, fmt.Sprintf("%s segs=%d mult=%d pct=%g pages=%d", c, c.MaxSegs, c.Mult, c.CompactPct, c.BufPages))
	}
	writeEvidence(&Evidence{PropertyID: "C07", Tier: tier, Violations: len(viols), WallS: time.Since(t0).Seconds(), Assumptions: commonAssumptions,
		Coverage: map[string]any{
			"states":                        tot.Rounds,
			"transitions":                   tot.Rounds,
			"traces_validated_against_impl": tot.Seqs,
			"evaluations":                   tot.Seqs,
			"distinct_nontrivial":           len(tot.Splices),
			"rule":                          "every sequence of R persistence rounds over an 8-round alphabet (1 key, 3 keys, a 5000-byte value, overwrite, delete+insert, child-collection write + delete, deletion of a never-set last key, child collection deleted and recreated within one round) x option points (concern, CompactionLevelMaxSegments, CompactionLevelMultiplier, CompactionPercentage, CompactionBufferPages, NoSync), plus, on the CompactionAllow option points, every sequence of R+1 (thorough R+2) rounds over the child-collection sub-alphabet (large value + child A written; child A written; A deleted and recreated within one round next to a top-level write; a key of A deleted; 1 key) and every sequence of R rounds over {1 key, large value, delete + insert, a round without data = the idle-compaction path}, on the real collection + store under the controlled scheduler; after every round: store snapshot == collection snapshot == reference; after a full compaction: <=1 segment per collection, no deletion markers, no duplicate keys; at the end: one data file. distinct_nontrivial = distinct (segments before -> after, compaction kind) transitions observed, i.e. the splice points exercised",
			"samples":                       samples,
			"exhaustive":                    infra == 0 && skipped == 0,
			"cap_hit":                       fmt.Sprintf("%d of %d jobs skipped by the deadline", skipped, len(jobs)),
			"rounds_per_sequence":           rounds,
			"child_family_rounds":           childRounds,
			"child_family_sequences":        len(childSeqs),
			"idle_family_sequences":         len(idleSeqs),
			"sequences_run":                 tot.Seqs,
			"full_compactions":              tot.Full,
			"partial_compactions":           tot.Partial,
			"segment_transitions":           tot.Splices,
			"option_points":                 cfgNames,
			"infrastructure_errors":         infra,
		}})
	fmt.Fprintf(os.Stderr, "[C07 %s] seqs=%d rounds=%d full=%d partial=%d splices=%v violations=%d infra=%d skipped=%d wall=%.1fs\n", tier, tot.Seqs, tot.Rounds, tot.Full, tot.Partial, tot.Splices, len(viols), infra, skipped, time.Since(t0).Seconds())
	if len(viols) > 0 {
		return 1
	}
	if infra > 0 && tot.Seqs == 0 {
		return 2
	}
	return 0
}
