package main

import (
	"encoding/json"
	"fmt"
	"os"
	"time"

	"github.com/couchbase/moss"
	vs "vsched"
)

// C12 - history can be walked back and reverted to exactly (store-direct explicit enumeration).

var c12Alpha = []*BatchSpec{
	kv("a", "$"),
	kv("b", "$", "a", "<del>"),
	{Ops: kv("c", "$").Ops, Kids: kid("A", kv("x", "$"))},
	{Kids: kid("A", kv("y", "$", "x", "<del>"))},
	{Kids: kid("N", &BatchSpec{Kids: kid("L", kv("z", "$"))})}, // nested: N has no key of its own, N/L has
	{DelKids: []string{"A"}},
	{Kids: kid("A", kv("w", "$"))},
}

// c12Rounds: what is executed between two persistence rounds - one batch, or (last entry) child A deleted and
// recreated with another key within the same round: the older footers then hold a different incarnation of A.
var c12Rounds = [][]int{{0}, {1}, {2}, {3}, {4}, {5, 6}}

type c12Job struct {
	Cfg  int     `json:"cfg"`
	Seqs [][]int `json:"seqs"`
	Tier string  `json:"tier"`
}

type c12Res struct {
	Runs      int            `json:"runs"`
	Walks     int            `json:"walks"`
	Reverts   int            `json:"reverts"`
	PowerCuts int            `json:"power_cuts"`
	Outcomes  map[string]int `json:"outcomes"`
	Viols     []Violation    `json:"viols,omitempty"`
	Sample    string         `json:"sample,omitempty"`
	Infra     string         `json:"infra,omitempty"`
}

func init() {
	workerHandlers["c12"] = func(data json.RawMessage) (any, error) {
		var j c12Job
		if err := json.Unmarshal(data, &j); err != nil {
			return nil, err
		}
		return c12Run(j), nil
	}
	engines["C12"] = checkC12
}

func c12Configs() []Config {
	return []Config{
		{Backing: "store", MinMergePct: 100, Concern: 0},
		{Backing: "store", MinMergePct: 100, Concern: 1, MaxSegs: 2, Mult: 2},
		{Backing: "store", MinMergePct: 100, Concern: 0, NoSync: true, CachePersisted: true},
	}
}

type exposure struct {
	dump  string
	model int // reference prefix shown
}

// walkBack returns the dumps of the current store snapshot and of every previous one, newest first.
func (w *World) walkBack(max int) (dumps []string, snaps []moss.Snapshot, errMsg string) {
	t := w.s.Spawn("walk", func() {
		cur, err := w.store.Snapshot()
		if err != nil || cur == nil {
			errMsg = "store.Snapshot failed"
			return
		}
		snaps = append(snaps, cur)
		dumps = append(dumps, DumpSnapshot(cur, w.probes).String())
		for i := 0; i < max; i++ {
			prev, err := w.store.SnapshotPrevious(cur)
			if err != nil {
				errMsg = fmt.Sprintf("SnapshotPrevious at depth %d: %v", i+1, err)
				return
			}
			if prev == nil {
				return
			}
			snaps = append(snaps, prev)
			dumps = append(dumps, DumpSnapshot(prev, w.probes).String())
			cur = prev
		}
	})
	w.mains[t.ID] = true
	w.runAll()
	if !t.Done {
		errMsg = "walk did not return"
	}
	if t.Panic != nil {
		errMsg = fmt.Sprintf("panic during walk: %v", t.Panic)
	}
	return
}

func closeSnaps(snaps []moss.Snapshot) {
	for _, s := range snaps {
		s.Close()
	}
}

func (w *World) compactions() int {
	st, err := w.store.Stats()
	if err != nil {
		return 0
	}
	a, _ := st["total_compactions"].(uint64)
	b, _ := st["total_compactions_partial"].(uint64)
	return int(a + b)
}

// c12One: rounds, then walk, then (optionally) revert to walk entry `target`, then continuation `cont`.
func c12One(cfg Config, seq []int, target, cont int, res *c12Res) *Violation {
	if !cfg.NoSync {
		cfg.VFS = true // record writes and syncs: "durable" is also checked against a power cut right after the revert
	}
	w := NewWorld(cfg, c12Alpha)
	defer w.Teardown()
	w.probes = []string{"a", "b", "c", "w", "x", "y", "z"}
	if w.infra != "" {
		res.Infra = w.infra
		return nil
	}
	where := fmt.Sprintf("options %s, rounds %v, revert target %d, continuation %d", cfg, seq, target, cont)
	var hist []exposure // since the last compaction
	comp := 0
	round := func(ri int) *Violation {
		var steps []string
		for _, bi := range c12Rounds[ri] {
			steps = append(steps, fmt.Sprintf("B%d", bi))
		}
		for _, st := range append(steps, "M") {
			if !w.Step(st) {
				res.Infra = where + ": step " + st + " not enabled"
				return nil
			}
		}
		ok, _ := w.PersistRound(0)
		if !ok || w.infra != "" {
			res.Infra = where + ": persistence round failed: " + w.infra
			return nil
		}
		p, d := w.storePrefix()
		if p != len(w.models)-1 {
			return &Violation{Prop: "C12", Sig: "round-not-persisted|round|any", Msg: fmt.Sprintf("%s: after a persistence round the store exposes %s, not the full reference content", where, d)}
		}
		if c := w.compactions(); c != comp {
			comp = c
			hist = nil // a compaction trims the history
		}
		hist = append(hist, exposure{d.String(), p})
		return nil
	}
	for _, bi := range seq {
		if v := round(bi); v != nil || res.Infra != "" {
			return v
		}
	}
	w.closeColl() // SnapshotRevert requires that no persistence runs concurrently
	if w.infra != "" {
		res.Infra = w.infra
		return nil
	}
	dumps, snaps, em := w.walkBack(len(seq) + 2)
	res.Walks++
	if em != "" {
		closeSnaps(snaps)
		return &Violation{Prop: "C12", Sig: "walk-error|walk|any", Msg: where + ": " + em}
	}
	// exact oracle: newest first, exactly the contents exposed after each round since the last compaction, then nil
	for k := 0; k < len(dumps) || k < len(hist); k++ {
		switch {
		case k >= len(dumps):
			closeSnaps(snaps)
			return &Violation{Prop: "C12", Sig: "walk-too-short|walk|any",
				Msg: fmt.Sprintf("%s: walking back ends after %d snapshots but %d rounds were persisted since the last compaction (missing: %s)", where, len(dumps), len(hist), hist[len(hist)-1-k].dump)}
		case k >= len(hist):
			closeSnaps(snaps)
			return &Violation{Prop: "C12", Sig: "walk-too-long|walk|any",
				Msg: fmt.Sprintf("%s: walking back yields a %d-th snapshot %s although only %d rounds were persisted since the last compaction", where, k+1, dumps[k], len(hist))}
		case dumps[k] != hist[len(hist)-1-k].dump:
			closeSnaps(snaps)
			return &Violation{Prop: "C12", Sig: "walk-wrong-content|walk|any",
				Msg: fmt.Sprintf("%s: snapshot %d steps back shows %s, the store exposed %s at that time", where, k, dumps[k], hist[len(hist)-1-k].dump)}
		}
	}
	res.Outcomes[fmt.Sprintf("walk-depth-%d", len(dumps)-1)]++
	if target < 0 && cont == 1 {
		// no revert: close, reopen, one more round - the history must continue across the reopen
		closeSnaps(snaps)
		w.closeAll()
		if w.infra != "" {
			res.Infra = w.infra
			return nil
		}
		w.open()
		if w.infra != "" {
			return &Violation{Prop: "C12", Sig: "reopen-fails|reopen|any", Msg: where + ": " + w.infra}
		}
		comp = w.compactions()
		if v := round(0); v != nil || res.Infra != "" {
			return v
		}
		w.closeColl()
		d3, s3, em := w.walkBack(len(seq) + 3)
		closeSnaps(s3)
		res.Walks++
		if em != "" {
			return &Violation{Prop: "C12", Sig: "walk-error|walk-after-reopen|any", Msg: where + ": " + em}
		}
		for k := 0; k < len(d3) || k < len(hist); k++ {
			switch {
			case k >= len(d3):
				return &Violation{Prop: "C12", Sig: "walk-too-short|walk-after-reopen|any",
					Msg: fmt.Sprintf("%s: after close, reopen and one more round, walking back ends after %d snapshots but %d rounds were persisted since the last compaction (missing: %s)", where, len(d3), len(hist), hist[len(hist)-1-k].dump)}
			case k >= len(hist):
				return &Violation{Prop: "C12", Sig: "walk-too-long|walk-after-reopen|any", Msg: fmt.Sprintf("%s: after reopen the walk yields %d snapshots for %d rounds", where, len(d3), len(hist))}
			case d3[k] != hist[len(hist)-1-k].dump:
				return &Violation{Prop: "C12", Sig: "walk-wrong-content|walk-after-reopen|any",
					Msg: fmt.Sprintf("%s: after reopen, snapshot %d steps back shows %s, the store exposed %s at that time", where, k, d3[k], hist[len(hist)-1-k].dump)}
			}
		}
		res.Outcomes[fmt.Sprintf("walk-after-reopen-depth-%d", len(d3)-1)]++
		return nil
	}
	if target < 0 || target >= len(snaps) {
		closeSnaps(snaps)
		return nil
	}
	// revert
	want := hist[len(hist)-1-target]
	var rerr error
	t := w.s.Spawn("revert", func() { rerr = w.store.SnapshotRevert(snaps[target]) })
	w.mains[t.ID] = true
	w.runAll()
	closeSnaps(snaps)
	res.Reverts++
	if !t.Done || t.Panic != nil {
		return &Violation{Prop: "C12", Sig: "revert-panic|revert|any", Msg: fmt.Sprintf("%s: SnapshotRevert did not return normally: %v", where, t.Panic)}
	}
	if rerr != nil {
		return &Violation{Prop: "C12", Sig: "revert-error|revert|any", Msg: fmt.Sprintf("%s: SnapshotRevert to a snapshot of the same file failed: %v", where, rerr)}
	}
	_, d := w.storePrefix()
	if d == nil || d.String() != want.dump {
		return &Violation{Prop: "C12", Sig: "revert-not-current|revert|any", Msg: fmt.Sprintf("%s: after SnapshotRevert the store exposes %s, wanted %s", where, d, want.dump)}
	}
	if w.vfs != nil {
		// the machine stops right after SnapshotRevert returned and every write that was not followed by a sync is lost
		ds := newDiskState()
		for _, o := range w.vfs.Ops {
			ds.apply(o)
		}
		dir, err := writeImage(image{files: ds.baseImage()})
		if err != nil {
			os.RemoveAll(dir)
			res.Infra = err.Error()
			return nil
		}
		dump, oerr, _ := openImage(cfg, dir, w.probes) // runs under a scheduler of its own
		vs.S = w.s
		os.RemoveAll(dir)
		res.PowerCuts++
		if oerr != "" {
			return &Violation{Prop: "C12", Sig: "revert-not-durable|power-cut-unopenable|any", Msg: fmt.Sprintf("%s: the directory as a power cut right after SnapshotRevert returned would leave it cannot be opened: %s", where, oerr)}
		}
		if dump.String() != want.dump {
			return &Violation{Prop: "C12", Sig: "revert-not-durable|power-cut|any", Msg: fmt.Sprintf("%s: SnapshotRevert returned, but after a power cut (unsynced writes lost) the directory shows %s, wanted the reverted content %s", where, dump, want.dump)}
		}
	}
	w.models = w.models[:want.model+1]
	reopenCheck := func(what string) *Violation {
		w.closeAll()
		if w.infra != "" {
			res.Infra = w.infra
			return nil
		}
		w.open()
		if w.infra != "" {
			return &Violation{Prop: "C12", Sig: "reopen-after-revert-fails|revert|any", Msg: where + ": " + what + ": " + w.infra}
		}
		if vs := w.snapshotOracle("C12"); len(vs) > 0 {
			v := vs[0]
			v.Sig = "revert-not-durable|" + what + "|any"
			v.Msg = where + ": " + what + ": " + v.Msg
			return &v
		}
		return nil
	}
	switch cont {
	case 0: // reopen
		return reopenCheck("reopen after revert")
	case 1: // one more round, then reopen: builds on the reverted content
		if v := reopenCheck("reopen after revert"); v != nil || res.Infra != "" {
			return v
		}
		hist = nil
		if v := round(0); v != nil || res.Infra != "" {
			if v != nil {
				v.Sig = "batch-after-revert-wrong|revert|any"
			}
			return v
		}
		return reopenCheck("reopen after revert + one more round")
	case 2: // walk back again: every snapshot equals some earlier exposed content, then nil
		d2, s2, em := w.walkBack(len(seq) + 3)
		closeSnaps(s2)
		if em != "" {
			return &Violation{Prop: "C12", Sig: "walk-error|walk-after-revert|any", Msg: where + ": " + em}
		}
		if len(d2) == 0 || d2[0] != want.dump {
			return &Violation{Prop: "C12", Sig: "revert-not-current|walk-after-revert|any", Msg: where + ": the newest snapshot after the revert is not the reverted content"}
		}
		res.Outcomes[fmt.Sprintf("walk-after-revert-depth-%d", len(d2)-1)]++
	case 3: // revert again, one step further back if there is one
		d2, s2, em := w.walkBack(1)
		if em != "" {
			closeSnaps(s2)
			return &Violation{Prop: "C12", Sig: "walk-error|walk-after-revert|any", Msg: where + ": " + em}
		}
		if len(s2) >= 2 {
			var rerr error
			t := w.s.Spawn("revert2", func() { rerr = w.store.SnapshotRevert(s2[1]) })
			w.mains[t.ID] = true
			w.runAll()
			_, d := w.storePrefix()
			if rerr == nil && (d == nil || d.String() != d2[1]) {
				closeSnaps(s2)
				return &Violation{Prop: "C12", Sig: "revert-not-current|second-revert|any", Msg: fmt.Sprintf("%s: after a second SnapshotRevert the store exposes %s, wanted %s", where, d, d2[1])}
			}
		}
		closeSnaps(s2)
	}
	return nil
}

func c12Run(j c12Job) (res c12Res) {
	res.Outcomes = map[string]int{}
	cfg := c12Configs()[j.Cfg]
	defer func() {
		if r := recover(); r != nil {
			res.Viols = append(res.Viols, Violation{Prop: "C12", Sig: "panic|harness|any", Msg: fmt.Sprint("panic: ", r)})
		}
	}()
	for _, seq := range j.Seqs {
		for target := -1; target <= len(seq); target++ {
			conts := []int{0, 1, 2, 3}
			if target < 0 {
				conts = []int{0, 1}
			}
			if cfg.Concern != 0 && target > 0 {
				continue // reverting across a compaction is documented to fail; only the walk is checked
			}
			for _, c := range conts {
				res.Runs++
				if v := c12One(cfg, seq, target, c, &res); v != nil {
					res.Viols = append(res.Viols, *v)
					if len(res.Viols) >= 4 {
						return
					}
				}
				if res.Infra != "" {
					return
				}
			}
		}
		if res.Sample == "" {
			res.Sample = fmt.Sprintf("options %s: rounds with batches %v, then walk back to nil, revert to each of the %d snapshots of the walk, each followed by {reopen, round+reopen, walk again, revert again}", cfg, seq, len(seq))
		}
	}
	return
}

func checkC12(prop, tier string) int {
	t0 := time.Now()
	maxR := 3
	if tier == "thorough" {
		maxR = 4
	}
	var seqs [][]int
	var gen func(cur []int)
	gen = func(cur []int) {
		if len(cur) > 0 {
			seqs = append(seqs, append([]int{}, cur...))
		}
		if len(cur) == maxR {
			return
		}
		for i := range c12Rounds {
			gen(append(cur, i))
		}
	}
	gen(nil)
	var jobs []Job
	for ci := range c12Configs() {
		for i := 0; i < len(seqs); i += 4 {
			k := i + 4
			if k > len(seqs) {
				k = len(seqs)
			}
			jobs = append(jobs, Job{Kind: "c12", Data: mustJSON(c12Job{Cfg: ci, Seqs: seqs[i:k], Tier: tier})})
		}
	}
	pool := NewPool()
	pool.Deadline = time.Now().Add(g4Deadline(tier))
	results := pool.Run(jobs)
	skippedByDeadline := countSkipped(results)
	var tot c12Res
	tot.Outcomes = map[string]int{}
	infra := 0
	var viols []Violation
	seen := map[string]bool{}
	var samples []any
	for i, r := range results {
		if r.Crashed || r.Err != "" {
			if v := crashViolation(pool, "C12", jobs[i], r); v != nil {
				viols = append(viols, *v)
				continue
			}
			infra++
			fmt.Fprintf(os.Stderr, "INFRA: c12 job %d: %s %s\n", i, r.Err, tail(r.Stderr, 600))
			continue
		}
		var cr c12Res
		json.Unmarshal(r.Data, &cr)
		if cr.Infra != "" {
			infra++
			fmt.Fprintf(os.Stderr, "INFRA: c12 job %d: %s\n", i, cr.Infra)
		}
		tot.Runs += cr.Runs
		tot.Walks += cr.Walks
		tot.Reverts += cr.Reverts
		tot.PowerCuts += cr.PowerCuts
		for k, v := range cr.Outcomes {
			tot.Outcomes[k] += v
		}
		if cr.Sample != "" && len(samples) < 5 && i%11 == 0 {
			samples = append(samples, cr.Sample)
		}
		for _, v := range cr.Viols {
			if !seen[v.Sig] {
				seen[v.Sig] = true
				viols = append(viols, v)
			}
		}
	}
	viols = reportViolations("C12", "G1", viols)
	if len(samples) == 0 {
		samples = append(samples, "none")
	}
	writeEvidence(&Evidence{PropertyID: "C12", Tier: tier, Violations: len(viols), WallS: time.Since(t0).Seconds(), Assumptions: commonAssumptions,
		Coverage: map[string]any{
			"states":                        tot.Walks + tot.Reverts,
			"transitions":                   tot.Runs,
			"traces_validated_against_impl": tot.Runs,
			"evaluations":                   tot.Runs,
			"distinct_nontrivial":           len(tot.Outcomes),
			"rule":                          "every sequence of 1..R persistence rounds over a 6-round alphabet (top-level and child-collection writes and deletes, a nested child collection, a child collection deleted and recreated within one round) x every revert target of the walk (including none) x 4 continuations (reopen; one more round then reopen; walk again; revert again), on the real store under the controlled scheduler; the walk must yield exactly the contents exposed after each round since the last compaction, newest first, then nil; after a revert: current == target, the directory a power cut right after the revert would leave (every unsynced write lost; synchronous configurations) opens to the target, reopen == target, next round builds on it; walks after a revert use the relaxed oracle of DESIGN.md 4.12",
			"samples":                       samples,
			"exhaustive":                    infra == 0 && skippedByDeadline == 0,
			"cap_hit":                       fmt.Sprintf("%d of %d jobs skipped by the deadline of %v", skippedByDeadline, len(jobs), g4Deadline(tier)),
			"max_rounds":                    maxR,
			"sequences":                     len(seqs),
			"walks":                         tot.Walks,
			"reverts":                       tot.Reverts,
			"power_cut_images_after_revert": tot.PowerCuts,
			"outcomes":                      tot.Outcomes,
			"infrastructure_errors":         infra,
		}})
	fmt.Fprintf(os.Stderr, "[C12 %s] runs=%d walks=%d reverts=%d outcomes=%v violations=%d infra=%d wall=%.1fs\n", tier, tot.Runs, tot.Walks, tot.Reverts, tot.Outcomes, len(viols), infra, time.Since(t0).Seconds())
	if len(viols) > 0 {
		return 1
	}
	if infra > 0 && tot.Runs == 0 {
		return 2
	}
	return 0
}
