package main

import (
	"fmt"
)

// "Rounds" searches: explicit-state searches whose steps are whole persistence rounds (macro steps such as
// "B0/M/Pb/Pe": batch, merger cycle, persister into the store, update returns), a round without data
// ("MA/Pb/Pe": the path an idle compaction takes - newDataSize == 0) and a clean close + reopen.  The fine-grained
// searches of the same properties complete five to seven steps in their time budget, i.e. one persisted round and a
// half; a level-based partial compaction needs CompactionLevelMaxSegments persisted segments first and only the
// round after it shows what it left behind.  With rounds as steps a depth of five reaches the second partial
// compaction, the full compaction after it and a reopen in between, with every oracle of the property evaluated in
// every state.

func roundSteps(alpha []*BatchSpec, extra ...string) []string {
	var out []string
	for i := range alpha {
		out = append(out, fmt.Sprintf("B%d/M/Pb/Pe", i))
	}
	return append(out, extra...)
}

// roundsConfigs: store configurations under which leveled (partial) compaction, forced compaction and plain
// appending alternate within a handful of rounds.
func roundsConfigs(tier string, mergeOp bool) []Config {
	cfgs := []Config{
		{Name: "store/cc1/seg2/pct0.99/mm100", Backing: "store", MinMergePct: 100, Concern: 1, MaxSegs: 2, Mult: 2, CompactPct: 0.99, MergeOp: mergeOp},
		{Name: "store/cc1/seg2/pct0.99/mm0.01/cp", Backing: "store", MinMergePct: 0.01, Concern: 1, MaxSegs: 2, Mult: 2, CompactPct: 0.99, CachePersisted: true, MergeOp: mergeOp},
		// a 25-byte key-index quota: with keys of uneven length (batch `unevenKeys`) the in-memory index of a persisted
		// segment is truncated after two entries, and the keys behind it are more than one hop away from the last one
		{Name: "store/cc1/seg1/mult9/pct0.01/ds/kidx25", Backing: "store", MinMergePct: 100, Concern: 1, MaxSegs: 1, Mult: 9, CompactPct: 0.01, DeferredSort: true, KeysIndexMax: 25, KeysIndexMin: 1, MergeOp: mergeOp},
	}
	if tier == "thorough" {
		cfgs = append(cfgs,
			Config{Name: "store/cc1/seg3/pct0.65/nosync/kidx64", Backing: "store", MinMergePct: 100, Concern: 1, MaxSegs: 3, Mult: 2, CompactPct: 0.65, NoSync: true, KeysIndexMax: 64, KeysIndexMin: 1, MergeOp: mergeOp},
			Config{Name: "store/cc2/mm0.01/cp", Backing: "store", MinMergePct: 0.01, Concern: 2, CachePersisted: true, MergeOp: mergeOp},
			Config{Name: "store/cc0/mm100", Backing: "store", MinMergePct: 100, Concern: 0, MergeOp: mergeOp},
		)
	}
	if mergeOp {
		for i := range cfgs {
			cfgs[i].Name += "/mo"
		}
	}
	return cfgs
}

// asRounds turns a fine-grained spec into its rounds variant.
//
// A partial compaction only happens above an older segment that is at least CompactionLevelMultiplier times larger
// than what is compacted (otherwise everything is on one level and the compaction is a full one), so the searches
// also start from a root whose first round persists `big`: the first batch of the alphabet plus a 5000-byte value.
func asRounds(sp *G1Spec, tier string, alpha []*BatchSpec, mergeOp bool, share float64, extraSteps ...string) *G1Spec {
	big := *alpha[0]
	big.Ops = append(append([]Op{}, big.Ops...), Op{Kind: 'S', Key: "zbig", Val: c07Big})
	sp.Alpha = append(append([]*BatchSpec{}, alpha...), &big)
	sp.Configs = roundsConfigs(tier, mergeOp)
	sp.Steps = roundSteps(alpha, append([]string{"MA/Pb/Pe", "R"}, extraSteps...)...)
	sp.Devs = nil
	sp.NoPlainBatches = true
	sp.Roots = [][]string{{fmt.Sprintf("B%d/M/Pb/Pe", len(alpha))}}
	sp.MaxB, sp.MaxD, sp.MaxK, sp.MaxR = 5, 6, 0, 1
	if tier == "thorough" {
		sp.MaxB, sp.MaxD, sp.MaxR = 6, 8, 2
	}
	sp.Share = share
	sp.Note += "; rounds variant: every step is a whole persistence round (batch, merger cycle, persister round into the store), a round without data (idle compaction path) or a close + reopen, under leveled-compaction options"
	return sp
}

// withShare fixes the fraction of a property's time budget that one search of its group gets.
func withShare(name string, share float64) {
	f := g1Specs[name]
	g1Specs[name] = func(tier string) *G1Spec {
		sp := f(tier)
		sp.Share = share
		return sp
	}
}

// unevenKeys: six keys of which the first is the longest (see the kidx25 configuration).
var unevenKeys = &BatchSpec{Ops: ops("S:abc", "S:b", "S:ba", "S:c", "S:cc", "S:d")}

func init() {
	defer func() {
		withShare("C01", 0.7)
		withShare("C02", 0.8)
		withShare("C04", 0.75)
		withShare("C08", 0.4)
		withShare("C08child", 0.23)
		withShare("C08deep", 0.05)
		withShare("C10", 0.8)
		withShare("C11", 0.75)
		withShare("C15", 0.75)
		withShare("C20", 0.8)
	}()
	g1Specs["C01rounds"] = func(tier string) *G1Spec {
		alpha := []*BatchSpec{{Ops: ops("S:a")}, {Ops: ops("D:a")}, {Ops: ops("S:b", "S:a")}, {Ops: ops("E:a", "D:b")}, unevenKeys}
		return asRounds(g1Specs["C01"](tier), tier, alpha, false, 0.2)
	}
	g1Groups["C01"] = []string{"C01", "C01deep", "C01rounds"}

	g1Specs["C04rounds"] = func(tier string) *G1Spec {
		alpha := []*BatchSpec{{Ops: ops("S:a")}, {Ops: ops("D:a")}, {Ops: ops("E:a", "S:b")},
			{Kids: kid("A", &BatchSpec{Ops: ops("S:a")})}, {DelKids: []string{"A"}}, {Kids: kid("A", &BatchSpec{Ops: ops("S:b")})}}
		// extra step: child A deleted and recreated (with another key) within one persistence round
		return asRounds(g1Specs["C04"](tier), tier, alpha, false, 0.25, "B4/B5/M/Pb/Pe")
	}
	g1Groups["C04"] = []string{"C04", "C04rounds"}

	g1Specs["C08rounds"] = func(tier string) *G1Spec {
		alpha := []*BatchSpec{{Ops: ops("S:a")}, {Ops: ops("M:a")}, {Ops: ops("D:a")}, {Ops: ops("M:a", "M:b")}}
		return asRounds(g1Specs["C08"](tier), tier, alpha, true, 0.18)
	}
	// operands inside a child collection across leveled compactions: compact() merges the segments of a child
	// collection above the splice point without the ones below it (MB-29664), so this is where an operand could be
	// folded over nothing; every batch also writes at the top level (a round without top-level data is compacted fully)
	g1Specs["C08childrounds"] = func(tier string) *G1Spec {
		ka := func(top string, child ...string) *BatchSpec {
			return &BatchSpec{Ops: ops(top), Kids: kid("A", &BatchSpec{Ops: ops(child...)})}
		}
		alpha := []*BatchSpec{ka("S:t", "S:a"), ka("S:t", "M:a"), ka("S:u", "D:a"), ka("M:t", "M:a", "S:b")}
		sp := asRounds(g1Specs["C08"](tier), tier, alpha, true, 0.12)
		sp.Note += "; child variant of the rounds search: Set / Merge / Del of a key inside child collection A next to top-level writes"
		return sp
	}
	g1Groups["C08"] = []string{"C08", "C08child", "C08deep", "C08rounds", "C08childrounds"}

	g1Specs["C10rounds"] = func(tier string) *G1Spec {
		alpha := []*BatchSpec{{Ops: ops("S:a")}, {Ops: ops("M:a")}, {Ops: ops("D:a")}, {Ops: ops("E:a", "M:")}, unevenKeys}
		return asRounds(g1Specs["C10"](tier), tier, alpha, true, 0.2)
	}
	g1Groups["C10"] = []string{"C10", "C10rounds"}

	g1Specs["C11rounds"] = func(tier string) *G1Spec {
		alpha := []*BatchSpec{c11Alpha[0], c11Alpha[2], c11Alpha[3], c11Alpha[6], c11Alpha[7], c11Alpha[1], c11Alpha[5],
			// deletion of grandchild A/X alone: a round without data that only changes the children of a child
			{Kids: kid("A", &BatchSpec{DelKids: []string{"X"}})}}
		// extra steps: child A deleted and recreated within one persistence round - with another key next to a new
		// sibling B, and empty (a round that carries no data at all, only a change of incarnation)
		return asRounds(g1Specs["C11"](tier), tier, alpha, false, 0.25, "B2/B5/M/Pb/Pe", "B2/B6/M/Pb/Pe")
	}
	g1Groups["C11"] = []string{"C11", "C11rounds"}

	g1Specs["C20rounds"] = func(tier string) *G1Spec {
		alpha := []*BatchSpec{{Ops: ops("S:a")}, {Kids: kid("A", &BatchSpec{Ops: ops("S:a")})}, {DelKids: []string{"A"}},
			{Ops: ops("S:b"), Kids: kid("A", &BatchSpec{Ops: ops("D:a")})},
			{Kids: kid("A", &BatchSpec{Kids: kid("X", &BatchSpec{Ops: ops("S:a")})})}}
		sp := asRounds(g1Specs["C20"](tier), tier, alpha, false, 0.2)
		// without the reopen step (C20's oracle reopens a copy of the directory itself), with batches that stay in memory
		sp.Steps = append(roundSteps(alpha, "MA/Pb/Pe"), "B0", "B1/M", "B4", "B4/M")
		sp.MaxR = 0
		return sp
	}
	g1Groups["C20"] = []string{"C20", "C20rounds"}

	// handles taken before, between and after leveled compactions: snapshots, child snapshots, iterators, store snapshots
	g1Specs["C02rounds"] = func(tier string) *G1Spec {
		alpha := []*BatchSpec{{Ops: ops("S:a")}, {Ops: ops("D:a", "S:b")}, {Ops: ops("S:b"), Kids: kid("A", &BatchSpec{Ops: ops("S:a")})}}
		sp := asRounds(g1Specs["C02"](tier), tier, alpha, false, 0.2, "S+", "CS+", "I+", "IX", "SS+", "H-")
		sp.MaxH = 2
		return sp
	}
	g1Groups["C02"] = []string{"C02", "C02rounds"}

	g1Specs["C15rounds"] = func(tier string) *G1Spec {
		alpha := []*BatchSpec{{Ops: ops("S:a")}, {Ops: ops("M:a", "D:b")}, {Ops: ops("S:b"), Kids: kid("A", &BatchSpec{Ops: ops("S:a")})}}
		sp := asRounds(g1Specs["C15"](tier), tier, alpha, true, 0.25, "S+", "CS+", "I+", "SS+", "H-")
		sp.MaxH = 2
		sp.MaxB, sp.MaxD = 4, 6
		return sp
	}
	g1Groups["C15"] = []string{"C15", "C15rounds"}
}
