package main

import (
	"encoding/json"
	"fmt"
	"os"
	"strings"
	"time"
)

// C06 - I/O failures never publish corrupt state or lose data (engine G3: fault enumeration over a recorded trace).

type c06Job struct {
	WL     int         `json:"wl"`
	Faults []faultSpec `json:"faults"`
}

type c06Res struct {
	Plans    int            `json:"plans"`
	Injected int            `json:"injected"` // plans in which at least one fault really fired
	Steps    int            `json:"steps"`
	Outcomes map[string]int `json:"outcomes"`
	Viols    []Violation    `json:"viols,omitempty"`
	Viols15  []Violation    `json:"viols15,omitempty"` // C15's oracle at the end of a plan: nothing held, one data file
	Closed   int            `json:"closed"`            // plans that ended with everything closed (C15's oracle was evaluated)
	Sample   string         `json:"sample,omitempty"`
	Infra    string         `json:"infra,omitempty"`
	TraceOps int            `json:"trace_ops"`
}

func init() {
	workerHandlers["c06"] = func(data json.RawMessage) (any, error) {
		var j c06Job
		if err := json.Unmarshal(data, &j); err != nil {
			return nil, err
		}
		return c06Run(j), nil
	}
	workerHandlers["c06trace"] = func(data json.RawMessage) (any, error) {
		var j c06Job
		if err := json.Unmarshal(data, &j); err != nil {
			return nil, err
		}
		ops, infra := recordTrace(c06Workloads()[j.WL])
		if infra != "" {
			return nil, fmt.Errorf("%s", infra)
		}
		return opIdentities(ops), nil
	}
	engines["C06"] = checkC06
}

func c06Workloads() []Workload {
	wls := workloads(false)
	return []Workload{wls[0], wls[1], wls[2], wls[4], wls[5], wls[7], wls[6], wls[8], wls[9]}
}

func faultPhase(f faultSpec, fileSeqOfFirst string) string {
	return f.Kind + "-" + f.Mode
}

// c06One runs one workload under one fault plan and applies the oracles after every step.
func c06One(wl Workload, f faultSpec, res *c06Res) {
	lastP := 0
	ackedDump := ""
	errsBefore := 0
	healedAt := -1
	var viol *Violation
	add := func(sig, msg string) {
		if viol == nil {
			viol = &Violation{Prop: "C06", Sig: sig, Msg: msg}
		}
	}
	ff := f
	stepNo := 0
	w, infra := runWorkload(wl, &ff, func(w *World, st string, ok bool) bool {
		stepNo++
		res.Steps++
		where := fmt.Sprintf("%s, fault %s, after step %d (%s)", wl.Name, f, stepNo, st)
		if p := w.threadPanicked(); p != "" {
			add("panic|"+f.Kind+"-"+f.Mode+"|any", where+": "+p)
			return false
		}
		// the collection's content is unchanged by failures
		if vs := w.snapshotOracle("C06"); len(vs) > 0 {
			add("collection-content-changed:"+strings.SplitN(vs[0].Sig, "|", 2)[0]+"|"+f.Kind+"-"+f.Mode+"|any", where+": "+vs[0].Msg)
			return false
		}
		// the store keeps exposing a batch-prefix state, never older than before
		ps, d := w.storePrefixes()
		p := -1
		if len(ps) > 0 {
			// when several prefixes have the same content (a batch restored an earlier content) the store is taken to be
			// at the oldest one that is not behind what it showed before: "never older than before" is violated only if
			// no matching prefix is at or after the previous one
			p = ps[len(ps)-1]
			for _, q := range ps {
				if q >= lastP {
					p = q
					break
				}
			}
		}
		if d != nil && p < 0 {
			add("store-not-a-prefix-state|"+f.Kind+"-"+f.Mode+"|any", fmt.Sprintf("%s: the store's own snapshot is not the reference content after any prefix: %s", where, d))
			return false
		}
		if p >= 0 && p < lastP {
			add("store-went-backwards|"+f.Kind+"-"+f.Mode+"|any", fmt.Sprintf("%s: the store exposed prefix %d before and %d now", where, lastP, p))
			return false
		}
		if p > lastP {
			lastP = p
		}
		if st == "P" {
			if w.lastAttempts > 1 {
				res.Outcomes["attempt-failed-then-retried"]++
				if w.onErrors < errsBefore+w.lastAttempts-1 {
					add("failure-not-surfaced|"+f.Kind+"-"+f.Mode+"|any", fmt.Sprintf("%s: %d attempts of the round failed but OnError was called %d times", where, w.lastAttempts-1, w.onErrors-errsBefore))
					return false
				}
			}
			if ok {
				// a round that reports success really contains its batches: what is on disk right now reopens to it
				ackedDump = d.String()
				res.Outcomes["round-succeeded"]++
			} else {
				res.Outcomes["round-failed"]++
				if w.onErrors <= errsBefore {
					add("failure-not-surfaced|"+f.Kind+"-"+f.Mode+"|any", where+": the persistence round did not complete, yet neither OnError nor a Persist error was seen")
					return false
				}
				if w.vfs.Injected > 0 && f.Count < 0 && healedAt < 0 {
					w.vfs.Healed = true // operations succeed again from here on
					healedAt = stepNo
				}
			}
			errsBefore = w.onErrors
		}
		// whatever is in the directory right now must reopen to a state at least as new as the last acknowledged one
		if w.vfs.Injected > 0 && !w.inGate {
			exp := d
			_ = exp
			cp, err := copyDir(w.dir)
			if err == nil {
				got, oerr := w.openDump(cp)
				os.RemoveAll(cp)
				switch {
				case oerr != "":
					add("directory-unopenable|"+f.Kind+"-"+f.Mode+"|any", where+": a copy of the directory taken now cannot be opened: "+oerr)
					return false
				default:
					q := -1
					for i := len(w.models) - 1; i >= 0; i-- {
						if w.models[i].DumpT(w.probes).String() == got.String() {
							q = i
							break
						}
					}
					if q < 0 {
						add("directory-content-corrupt|"+f.Kind+"-"+f.Mode+"|any", fmt.Sprintf("%s: a copy of the directory taken now reopens to %s, which is not a batch-prefix state (store exposes prefix %d)", where, got, p))
						return false
					}
					if ackedDump != "" && st == "P" && ok && got.String() != ackedDump {
						add("success-but-not-on-disk|"+f.Kind+"-"+f.Mode+"|any", fmt.Sprintf("%s: the round reported success and the store exposes %s, but the directory reopens to %s", where, ackedDump, got))
						return false
					}
					if q < lastP-1 && ackedDump != "" {
						// q may lag by the round in flight only when that round failed; never below the acknowledged state
					}
				}
			} else {
				os.RemoveAll(cp)
			}
		}
		return true
	})
	defer w.Teardown()
	res.Plans++
	if infra != "" && viol == nil {
		if strings.Contains(infra, "not enabled") || strings.Contains(infra, "open failed") || infra == "stop" {
			// the fault hit an operation of opening / reopening the store: outside this property's alphabet
			res.Outcomes["fault-in-open-skipped"]++
			return
		}
		res.Infra = fmt.Sprintf("%s, fault %s: %s", wl.Name, f, infra)
		return
	}
	if w.vfs != nil && w.vfs.Injected > 0 {
		res.Injected++
	} else {
		res.Outcomes["fault-never-fired"]++
	}
	// once operations succeed again persistence catches up to the full reference content
	if viol == nil && w.infra == "" && !w.closedColl {
		w.vfs.Healed = true
		for i := 0; i < 4; i++ {
			if p0, _ := w.storePrefix(); p0 == len(w.models)-1 {
				break // nothing is behind: do not run extra rounds (they could hide a deferred effect behind a compaction)
			}
			if w.s.Enabled(w.merger) {
				w.run(w.merger)
				w.settle()
			}
			w.PersistRound(1)
		}
		p, d := w.storePrefix()
		if p != len(w.models)-1 {
			add("no-catch-up-after-healing|"+f.Kind+"-"+f.Mode+"|any", fmt.Sprintf("%s, fault %s: after operations succeed again and 4 merger/persister alternations the store exposes prefix %d of %d: %s", wl.Name, f, p, len(w.models)-1, d))
		} else {
			res.Outcomes["caught-up"]++
			// finally: close everything (this is when files scheduled for removal disappear) and reopen the directory
			w.closeAll()
			if w.infra == "" {
				w.runAll()
				// C15 after a history with an I/O failure: everything is closed now, so the process holds nothing of
				// the directory and only the current data file is left (checked before the reopen below, which
				// would tidy the directory up)
				res.Closed++
				if len(res.Viols15) < 4 {
					fds, maps := storeResources(w.dir)
					files := dataFiles(w.dir)
					switch {
					case len(fds) > 0:
						res.Viols15 = append(res.Viols15, Violation{Prop: "C15", Sig: "descriptor-leak|after-io-failure|" + f.Kind + "-" + f.Mode, Msg: fmt.Sprintf("%s, fault %s: after catching up and closing collection and store the process still holds descriptors %v", wl.Name, f, fds)})
					case len(maps) > 0:
						res.Viols15 = append(res.Viols15, Violation{Prop: "C15", Sig: "mapping-leak|after-io-failure|" + f.Kind + "-" + f.Mode, Msg: fmt.Sprintf("%s, fault %s: after catching up and closing collection and store the process still maps %v", wl.Name, f, maps)})
					case len(files) > 1 && !w.cfg.KeepFiles:
						res.Viols15 = append(res.Viols15, Violation{Prop: "C15", Sig: "stale-data-file|after-io-failure|" + f.Kind + "-" + f.Mode, Msg: fmt.Sprintf("%s, fault %s: after catching up and closing collection and store the directory holds %v", wl.Name, f, files)})
					}
				}
				got, oerr := w.openDump(w.dir)
				switch {
				case oerr != "":
					add("lost-after-close|"+f.Kind+"-"+f.Mode+"|any", fmt.Sprintf("%s, fault %s: after catching up, closing collection and store, the directory cannot be reopened: %s (files: %v)", wl.Name, f, oerr, dataFiles(w.dir)))
				case got.String() != w.model().DumpT(w.probes).String():
					add("lost-after-close|"+f.Kind+"-"+f.Mode+"|any", fmt.Sprintf("%s, fault %s: after catching up, closing collection and store, the directory reopens to %s instead of the full reference content", wl.Name, f, got))
				default:
					res.Outcomes["reopened-complete"]++
				}
			}
		}
	}
	if viol != nil && len(res.Viols) < 6 {
		res.Viols = append(res.Viols, *viol)
	}
	if res.Sample == "" && w.vfs != nil && w.vfs.Injected > 0 {
		res.Sample = fmt.Sprintf("%s under fault plan {%s}: %d faults fired, OnError calls %d, final store prefix %d", wl.Name, f, w.vfs.Injected, w.onErrors, lastP)
	}
}

func c06Run(j c06Job) (res c06Res) {
	res.Outcomes = map[string]int{}
	wl := c06Workloads()[j.WL]
	defer func() {
		if r := recover(); r != nil {
			res.Viols = append(res.Viols, Violation{Prop: "C06", Sig: "panic|harness|any", Msg: fmt.Sprint("panic: ", r)})
		}
	}()
	for _, f := range j.Faults {
		n6, n15 := len(res.Viols), len(res.Viols15)
		c06One(wl, f, &res)
		for i := n6; i < len(res.Viols); i++ {
			res.Viols[i].Replay = map[string]any{"workload": j.WL, "workload_name": wl.Name, "fault": f}
		}
		for i := n15; i < len(res.Viols15); i++ {
			res.Viols15[i].Replay = map[string]any{"workload": j.WL, "workload_name": wl.Name, "fault": f}
		}
		if res.Infra != "" || len(res.Viols) >= 6 {
			return
		}
	}
	return
}

// faultRun is the outcome of running every fault plan of a tier.
type faultRun struct {
	tot      c06Res
	viols    []Violation // C06's oracles
	viols15  []Violation // C15's end-of-plan oracle
	infra    int
	totalIds int
	names    []string
	counts   []int
	samples  []any
	rc       int
}

func checkC06(prop, tier string) int {
	t0 := time.Now()
	fr := runFaultPlans(tier, nil)
	if fr.rc != 0 {
		return fr.rc
	}
	tot, infra, samples, names, totalIds, counts := fr.tot, fr.infra, fr.samples, fr.names, fr.totalIds, fr.counts
	viols := reportViolations("C06", "G3", fr.viols)
	writeEvidence(&Evidence{PropertyID: "C06", Tier: tier, Violations: len(viols), WallS: time.Since(t0).Seconds(), Assumptions: commonAssumptions,
		Coverage: map[string]any{
			"states":                        tot.Steps,
			"transitions":                   tot.Steps,
			"traces_validated_against_impl": tot.Plans,
			"evaluations":                   tot.Plans,
			"distinct_nontrivial":           tot.Injected,
			"rule":                          "for every file operation of the fault-free trace of each workload (identity = file, kind, ordinal) x every error kind (write: error / short write with error / short write without error; sync, stat, create, open: error) x burst length, the workload is re-run on the real write path (persister thread retrying, OnError) with that fault plan; oracles after every step; states = steps checked, distinct_nontrivial = plans in which the fault really fired",
			"samples":                       samples,
			"exhaustive":                    infra == 0,
			"workloads":                     names,
			"operation_identities":          totalIds,
			"burst_lengths":                 counts,
			"outcomes":                      tot.Outcomes,
			"infrastructure_errors":         infra,
		}})
	fmt.Fprintf(os.Stderr, "[C06 %s] plans=%d fired=%d steps=%d outcomes=%v violations=%d infra=%d wall=%.1fs\n", tier, tot.Plans, tot.Injected, tot.Steps, tot.Outcomes, len(viols), infra, time.Since(t0).Seconds())
	if len(viols) > 0 {
		return 1
	}
	if infra > 0 && tot.Plans == 0 {
		return 2
	}
	return 0
}

// runFaultPlans runs every fault plan of the tier (restricted to the workloads in only, if given).
func runFaultPlans(tier string, only []int) (fr faultRun) {
	pool := NewPool()
	wls := c06Workloads()
	use := []int{0, 1, 2, 4, 5, 7}
	counts := []int{1}
	if tier == "thorough" {
		use = []int{0, 1, 2, 3, 4, 5, 6, 7, 8}
		counts = []int{1, 2, 3, -1}
	}
	if only != nil {
		use = only
	}
	var jobs []Job
	var jobWL []int
	totalIds := 0
	for _, wi := range use {
		r := pool.RunOne(Job{Kind: "c06trace", Data: mustJSON(c06Job{WL: wi})})
		var ids []faultSpec
		if r.Crashed || r.Err != "" || json.Unmarshal(r.Data, &ids) != nil {
			fmt.Fprintf(os.Stderr, "INFRA: cannot record the fault-free trace of %s: %s %s\n", wls[wi].Name, r.Err, tail(r.Stderr, 400))
			fr.rc = 2
			return
		}
		totalIds += len(ids)
		var plans []faultSpec
		for _, id := range ids {
			var modes []string
			switch id.Kind {
			case "write":
				modes = []string{"err", "short-err", "short-nil"}
			default:
				modes = []string{"err"}
			}
			for _, m := range modes {
				for _, c := range counts {
					f := id
					f.Mode, f.Count, f.Short = m, c, 7
					plans = append(plans, f)
					if c < 0 { // persistent failure of that kind on any file until healed
						g := f
						g.File = "*"
						plans = append(plans, g)
					}
				}
			}
		}
		for i := 0; i < len(plans); i += 6 {
			k := i + 6
			if k > len(plans) {
				k = len(plans)
			}
			jobs = append(jobs, Job{Kind: "c06", Data: mustJSON(c06Job{WL: wi, Faults: plans[i:k]})})
			jobWL = append(jobWL, wi)
		}
	}
	results := pool.Run(jobs)
	var tot c06Res
	tot.Outcomes = map[string]int{}
	infra := 0
	var viols []Violation
	seen := map[string]bool{}
	var samples []any
	for i, r := range results {
		if r.Crashed || r.Err != "" {
			if v := crashViolation(pool, "C06", jobs[i], r); v != nil {
				viols = append(viols, *v)
				continue
			}
			infra++
			fmt.Fprintf(os.Stderr, "INFRA: c06 job %d: %s %s\n", i, r.Err, tail(r.Stderr, 800))
			continue
		}
		var cr c06Res
		json.Unmarshal(r.Data, &cr)
		if cr.Infra != "" {
			infra++
			fmt.Fprintf(os.Stderr, "INFRA: c06 job %d: %s\n", i, cr.Infra)
		}
		tot.Plans += cr.Plans
		tot.Injected += cr.Injected
		tot.Steps += cr.Steps
		for k, v := range cr.Outcomes {
			tot.Outcomes[k] += v
		}
		if cr.Sample != "" && len(samples) < 6 && i%5 == 0 {
			samples = append(samples, cr.Sample)
		}
		for _, v := range cr.Viols {
			if !seen[v.Sig] {
				seen[v.Sig] = true
				viols = append(viols, v)
			}
		}
		tot.Closed += cr.Closed
		for _, v := range cr.Viols15 {
			if !seen[v.Sig] {
				seen[v.Sig] = true
				fr.viols15 = append(fr.viols15, v)
			}
		}
	}
	if len(samples) == 0 {
		samples = append(samples, "none")
	}
	for _, wi := range use {
		fr.names = append(fr.names, wls[wi].Name)
	}
	fr.tot, fr.viols, fr.infra, fr.totalIds, fr.counts, fr.samples = tot, viols, infra, totalIds, counts, samples
	return
}
