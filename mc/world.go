package main

import (
	"crypto/sha1"
	"encoding/hex"
	"errors"
	"fmt"
	"os"
	"path/filepath"
	"sort"
	"strconv"
	"strings"

	"github.com/couchbase/moss"
	vs "vsched"
)

// Config is one option combination; one explicit-state search is run per Config.
type Config struct {
	Name           string  `json:"name"`
	Backing        string  `json:"backing"` // none | map | store
	MinMergePct    float64 `json:"min_merge_pct"`
	DeferredSort   bool    `json:"deferred_sort"`
	CachePersisted bool    `json:"cache_persisted"`
	Concern        int     `json:"concern"` // 0 disable, 1 allow, 2 force
	NoSync         bool    `json:"nosync"`
	MaxSegs        int     `json:"max_segs"`
	Mult           int     `json:"mult"`
	CompactPct     float64 `json:"compact_pct"`
	BufPages       int     `json:"buf_pages"`
	OpYield        bool    `json:"op_yield,omitempty"` // the merge operator is a scheduling point (step m3)
	MergeOp        bool    `json:"merge_op"`
	MaxDirtyOps    uint64  `json:"max_dirty_ops"`
	MaxPre         int     `json:"max_pre"`
	IdleMS         int     `json:"idle_ms"`
	SleepBudget    int     `json:"sleep_budget"`
	KeysIndexMax   int     `json:"keys_index_max"`
	KeysIndexMin   int     `json:"keys_index_min"`
	NoLLInit       bool    `json:"no_ll_init,omitempty"` // map backing: LowerLevelUpdate only, no LowerLevelInit
	VFS            bool    `json:"vfs,omitempty"`        // route file operations through the recording / fault-injecting file layer
	KeepFiles      bool    `json:"keep_files,omitempty"`
	ReadOnly       bool    `json:"read_only,omitempty"`
	CompactionSync bool    `json:"compaction_sync,omitempty"`
}

func (c Config) String() string {
	if c.Name != "" {
		return c.Name
	}
	s := c.Backing
	if c.Backing == "store" {
		s += fmt.Sprintf("/cc%d", c.Concern)
		if c.NoSync {
			s += "/nosync"
		}
		if c.MaxSegs != 0 {
			s += fmt.Sprintf("/seg%d", c.MaxSegs)
		}
	}
	s += fmt.Sprintf("/mm%g", c.MinMergePct)
	if c.DeferredSort {
		s += "/ds"
	}
	if c.CachePersisted {
		s += "/cp"
	}
	if c.OpYield {
		s += "/opyield"
	}
	if c.MergeOp {
		s += "/mo"
	}
	if c.NoLLInit {
		s += "/noinit"
	}
	if c.MaxPre != 0 && c.MaxPre != 2 {
		s += fmt.Sprintf("/pre%d", c.MaxPre)
	}
	if c.MaxDirtyOps > 0 {
		s += fmt.Sprintf("/mdo%d", c.MaxDirtyOps)
	}
	if c.IdleMS > 0 {
		s += "/idle"
	}
	return s
}

var errInjected = errors.New("verif: injected lower-level failure")

// llUpdate records one completed LowerLevelUpdate of the map backing.
type llUpdate struct {
	Handed []Op
	OK     bool
}

// handle is an open snapshot / child snapshot / iterator kept by the driver (C02, C15).
type handle struct {
	Kind     string // "snap", "child", "iter", "storesnap"
	Snap     moss.Snapshot
	Iter     moss.Iterator
	Expect   string // dump (snap, child, storesnap) recorded when taken
	IterKV   [][2]string
	Child    string
	TakenAt  int // number of executed batches when taken
	ParentIx int
}

// World is one instance of moss under the controlled scheduler plus the reference model.
type World struct {
	cfg   Config
	alpha []*BatchSpec
	s     *vs.Sched

	coll  moss.Collection
	store *moss.Store
	dir   string

	merger, persister *vs.Thread
	mains             map[int]bool // thread ids that are never auto-run as helpers

	gateFlag       bool // persister may leave the gate
	gateMode       int  // 1 success, 2 fail
	inGate         bool
	gateHigher     string
	fewCloseOrders bool // C15 quick tier: only two close orders per state
	markAcks       bool // record an acknowledgement marker in the file-operation trace whenever Persist returns success
	gateOff        bool // teardown: gate is transparent

	ll        map[string]string
	llUpdates []llUpdate
	llOffered [][]Op // every `higher` offered (including failed ones)

	models      []*Node      // models[i] = reference content after i executed batches
	specs       []*BatchSpec // specs[i] = the (i+1)-th executed batch
	nIssued     int          // batches issued (including a pending one)
	pending     *vs.Thread
	pendingSpec *BatchSpec
	pendingErr  *error

	handles []*handle
	vfs     *VFS

	closedColl, closedStore bool
	onErrors                int
	persistOK               int // successful LowerLevelUpdate rounds (store backing: Persist returned nil)
	reopenCount             int
	outcome                 string // G2: observable outcome of this execution
	lastAttempts            int
	lastReopenDump          string

	viols []Violation // violations detected by hooks during steps (gate, reopen)

	obsMerger, obsPersister []string // state keys observed at each mid-cycle stop since the thread's loop top
	infra                   string   // infrastructure problem (never a violation)
	killed                  int
	probes                  []string
}

func tmpRoot() string {
	if r := os.Getenv("VERIF_SCRATCH"); r != "" {
		return r
	}
	if st, err := os.Stat("/dev/shm"); err == nil && st.IsDir() {
		return "/dev/shm"
	}
	return os.TempDir()
}

func (w *World) collOptions() moss.CollectionOptions {
	co := moss.CollectionOptions{
		MaxPreMergerBatches:    w.cfg.MaxPre,
		MinMergePercentage:     w.cfg.MinMergePct,
		DeferredSort:           w.cfg.DeferredSort,
		CachePersisted:         w.cfg.CachePersisted,
		MaxDirtyOps:            w.cfg.MaxDirtyOps,
		MergerIdleRunTimeoutMS: int64(w.cfg.IdleMS),
		OnError:                func(error) { w.onErrors++ },
	}
	if co.MaxPreMergerBatches == 0 {
		co.MaxPreMergerBatches = 2
	}
	if w.cfg.IdleMS == 0 {
		co.MergerIdleRunTimeoutMS = -1
	}
	if w.cfg.MergeOp {
		co.MergeOperator = appendMergeOperator{Yield: w.cfg.OpYield}
	}
	return co
}

func (w *World) storeOptions() (moss.StoreOptions, moss.StorePersistOptions) {
	so := moss.StoreOptions{
		CollectionOptions:           w.collOptions(),
		CompactionLevelMaxSegments:  w.cfg.MaxSegs,
		CompactionLevelMultiplier:   w.cfg.Mult,
		CompactionPercentage:        w.cfg.CompactPct,
		CompactionBufferPages:       w.cfg.BufPages,
		SegmentKeysIndexMaxBytes:    w.cfg.KeysIndexMax,
		SegmentKeysIndexMinKeyBytes: w.cfg.KeysIndexMin,
	}
	so.KeepFiles = w.cfg.KeepFiles
	so.CompactionSync = w.cfg.CompactionSync
	so.CollectionOptions.ReadOnly = w.cfg.ReadOnly
	if w.vfs != nil {
		so.OpenFile = w.vfs.OpenFile
	}
	if so.CompactionLevelMaxSegments == 0 {
		so.CompactionLevelMaxSegments = 2
	}
	if so.CompactionLevelMultiplier == 0 {
		so.CompactionLevelMultiplier = 2
	}
	po := moss.StorePersistOptions{NoSync: w.cfg.NoSync, CompactionConcern: moss.CompactionConcern(w.cfg.Concern)}
	return so, po
}

// NewWorld creates a fresh instance and brings it to its initial quiescent state.
func NewWorld(cfg Config, alpha []*BatchSpec) *World {
	w := &World{cfg: cfg, alpha: alpha, ll: map[string]string{}, mains: map[int]bool{}, probes: probesFor(alpha)}
	w.models = []*Node{NewNode()}
	w.s = newSched(cfg)
	if cfg.VFS {
		w.vfs = newVFS()
		w.s.OnRemove = func(path string) { w.vfs.rec(vfsOp{Kind: "unlink", File: filepath.Base(path)}) }
	}
	if cfg.Backing == "store" {
		d, err := os.MkdirTemp(tmpRoot(), "mossw-")
		if err != nil {
			w.infra = "mkdirtemp: " + err.Error()
			return w
		}
		w.dir = d
	}
	w.open()
	return w
}

func newSched(cfg Config) *vs.Sched {
	s := vs.New()
	s.SleepBudget = cfg.SleepBudget
	return s
}

// gate is wrapped around LowerLevelUpdate: the persister parks in it until a Pe/Pf step.
func (w *World) gate(orig moss.LowerLevelUpdate) moss.LowerLevelUpdate {
	return func(higher moss.Snapshot) (moss.Snapshot, error) {
		if !w.gateOff {
			w.inGate = true
			w.gateHigher = shortHash(moss.VerifSnapshotKey(higher)) // what the persister holds while parked (a thread-local of moss)
			vs.Block("llu-gate", &w.gateFlag)
			w.gateFlag = false
			w.inGate = false
			if w.gateMode == 2 {
				if w.cfg.Backing == "map" {
					_, handed, _ := applyHigher(map[string]string{}, higher)
					w.llOffered = append(w.llOffered, handed)
					w.llUpdates = append(w.llUpdates, llUpdate{Handed: handed, OK: false})
				}
				return nil, errInjected
			}
		}
		ss, err := orig(higher)
		if err == nil {
			w.persistOK++
			if w.markAcks && w.vfs != nil && w.store != nil {
				// Persist has just returned success: from here on its content is acknowledged
				if p, d := w.storePrefix(); d != nil {
					w.vfs.Mark(p, d.String())
				}
			}
		}
		return ss, err
	}
}

func (w *World) mapUpdate(higher moss.Snapshot) (moss.Snapshot, error) {
	nk, handed, err := applyHigher(w.ll, higher)
	if err != nil {
		return nil, err
	}
	w.llOffered = append(w.llOffered, handed)
	w.llUpdates = append(w.llUpdates, llUpdate{Handed: handed, OK: true})
	w.ll = nk
	return newMapSnapshot(nk), nil
}

// open creates (or re-opens) collection and store and runs all threads to the initial quiescent state.
func (w *World) open() {
	w.s.SleepFree = false // closeAll lets timers fire freely; a reopened collection is on the timer budget again
	before := w.s.NumThreads()
	var openErr error
	t := w.s.Spawn("open", func() {
		switch w.cfg.Backing {
		case "none":
			w.coll, openErr = moss.NewCollection(w.collOptions())
		case "map":
			co := w.collOptions()
			if !w.cfg.NoLLInit {
				co.LowerLevelInit = newMapSnapshot(w.ll)
			}
			co.LowerLevelUpdate = w.gate(w.mapUpdate)
			w.coll, openErr = moss.NewCollection(co)
		case "store":
			so, po := w.storeOptions()
			w.store, w.coll, openErr = moss.OpenStoreCollection(w.dir, so, po)
			if openErr == nil {
				moss.VerifWrapLLU(w.coll, func(orig moss.LowerLevelUpdate) moss.LowerLevelUpdate { return w.gate(orig) })
			}
			return // OpenStoreCollection has started the collection already
		}
		if openErr == nil {
			openErr = w.coll.Start()
		}
	})
	w.mains[t.ID] = true
	w.run(t)
	if openErr != nil || !t.Done {
		w.infra = fmt.Sprintf("open failed: err=%v done=%v panic=%v", openErr, t.Done, t.Panic)
		return
	}
	moss.VerifMarkGate(w.coll)
	// The first two threads spawned by Start are the merger and the persister.
	w.merger, w.persister = nil, nil
	if w.cfg.ReadOnly {
		// a read-only collection starts no merger and no persister
	} else if w.s.NumThreads() >= before+3 {
		w.merger, w.persister = w.s.Thread(before+1), w.s.Thread(before+2)
		w.mains[w.merger.ID], w.mains[w.persister.ID] = true, true
	} else {
		w.infra = "merger/persister threads not found"
		return
	}
	w.closedColl, w.closedStore = false, false
	w.inGate, w.gateFlag = false, false
	w.obsMerger, w.obsPersister = nil, nil
	if w.merger != nil {
		w.run(w.merger)
		w.run(w.persister)
	}
	w.settle()
}

// run steps t (default choices) until it is no longer enabled, running helper threads as they appear.
func (w *World) run(t *vs.Thread) {
	for n := 0; ; n++ {
		prog := false
		for w.s.Enabled(t) {
			w.s.Step(t, 0)
			prog = true
			if n++; n > 200000 {
				w.infra = "step budget exhausted (livelock?) in thread " + t.Name
				return
			}
		}
		if w.helpers() {
			prog = true
		}
		if !prog {
			return
		}
	}
}

// helpers runs every auxiliary thread (writers of a segment, deferred sorters, stats updaters,
// file removers, notifiers) to quiescence; returns whether anything ran.
func (w *World) helpers() bool {
	any := false
	for again := true; again; {
		again = false
		for i := 0; i < w.s.NumThreads(); i++ {
			t := w.s.Thread(i)
			if w.mains[t.ID] || t.Done {
				continue
			}
			for w.s.Enabled(t) {
				w.s.Step(t, 0)
				again, any = true, true
			}
		}
	}
	return any
}

// settle runs helpers and a pending driver call as far as they go.
func (w *World) settle() {
	for {
		prog := w.helpers()
		if w.pending != nil && w.s.Enabled(w.pending) {
			w.run(w.pending)
			prog = true
		}
		if w.pending != nil && w.pending.Done {
			w.finishPending()
		}
		if !prog {
			return
		}
	}
}

func (w *World) finishPending() {
	t := w.pending
	w.pending = nil
	if t.Panic != nil {
		return
	}
	if w.pendingErr != nil && *w.pendingErr == nil {
		m := w.models[len(w.models)-1].Clone()
		m.Apply(w.pendingSpec)
		w.models = append(w.models, m)
		w.specs = append(w.specs, w.pendingSpec)
	}
	w.pendingSpec, w.pendingErr = nil, nil
}

// model returns the reference content after all executed batches.
func (w *World) model() *Node { return w.models[len(w.models)-1] }

// instantiate fills the per-batch unique values into a batch shape.
func instantiate(spec *BatchSpec, n int) *BatchSpec {
	out := &BatchSpec{UseAlloc: spec.UseAlloc, AllocStyle: spec.AllocStyle, DelKids: spec.DelKids}
	for _, o := range spec.Ops {
		if o.Val == "$" {
			if o.Kind == 'M' {
				o.Val = "x" + strconv.Itoa(n)
			} else {
				o.Val = "v" + strconv.Itoa(n)
			}
		}
		out.Ops = append(out.Ops, o)
	}
	if spec.Kids != nil {
		out.Kids = map[string]*BatchSpec{}
		for k, v := range spec.Kids {
			out.Kids[k] = instantiate(v, n)
		}
	}
	return out
}

func (w *World) threadPanicked() string {
	for i := 0; i < w.s.NumThreads(); i++ {
		t := w.s.Thread(i)
		if t.Panic != nil {
			return fmt.Sprintf("thread %s panicked: %v\n%s", t.Name, t.Panic, t.PanicSt)
		}
	}
	return ""
}

// Step executes one step of the alphabet; it returns false when the step is not enabled in this state.
func (w *World) Step(st string) bool {
	if w.infra != "" {
		return false
	}
	if strings.Contains(st, "/") {
		// macro step: its parts are executed one after the other and count as one step of a history (e.g. a whole
		// persistence round "B0/M/Pb/Pe"); it is enabled only if every part is
		for _, part := range strings.Split(st, "/") {
			if !w.Step(part) {
				return false
			}
		}
		return true
	}
	switch {
	case st[0] == 'B':
		if w.pending != nil || w.closedColl {
			return false
		}
		i, _ := strconv.Atoi(st[1:])
		w.nIssued++
		spec := instantiate(w.alpha[i], w.nIssued)
		var err error = errors.New("not returned")
		t := w.s.Spawn("batch", func() {
			nbytes := 512
			for _, o := range spec.Ops {
				nbytes += len(o.Key) + len(o.Val)
			}
			b, e := w.coll.NewBatch(16, nbytes)
			if e != nil {
				err = e
				return
			}
			if e := BuildBatch(b, spec); e != nil {
				err = e
				return
			}
			err = w.coll.ExecuteBatch(b, moss.WriteOptions{})
			b.Close()
		})
		w.mains[t.ID] = true
		w.pending, w.pendingSpec, w.pendingErr = t, spec, &err
		w.run(t)
		w.settle()
		return true
	case st == "M" || st == "MA":
		if w.closedColl || w.merger == nil {
			return false
		}
		if st == "MA" {
			if moss.VerifPingQueue(w.coll) >= 9 {
				return false
			}
			t := w.s.Spawn("notify", func() { w.coll.(interface{ NotifyMerger(string, bool) error }).NotifyMerger("mergeAll", false) })
			w.mains[t.ID] = true
			w.run(t)
			if !t.Done {
				w.infra = "asynchronous NotifyMerger blocked"
				return false
			}
		}
		if !w.s.Enabled(w.merger) {
			return st == "MA"
		}
		w.run(w.merger)
		w.obsMerger = nil
		w.settle()
		return true
	case st == "Pb":
		if w.closedColl || w.persister == nil || w.inGate || !w.s.Enabled(w.persister) {
			return false
		}
		w.run(w.persister)
		if !w.inGate {
			w.obsPersister = nil
		}
		w.settle()
		return true
	case st == "Pe" || st == "Pf":
		if !w.inGate || w.closedColl {
			return false
		}
		w.gateMode = 1
		if st == "Pf" {
			w.gateMode = 2
		}
		w.gateFlag = true
		w.run(w.persister)
		w.obsPersister = nil
		w.settle()
		return true
	case st == "m3": // deviation: advance the merger to its next call of the merge operator (or to the end of its cycle)
		t := w.merger
		if w.closedColl || t == nil || !w.s.Enabled(t) {
			return false
		}
		atOp := func() bool { return !t.Done && t.PendingKind() == vs.KYield && t.PendingLabel() == "merge-op" }
		key := w.Key()
		w.s.Step(t, 0)
		for n := 0; w.s.Enabled(t) && !atOp() && n < 100000; n++ {
			w.s.Step(t, 0)
			w.helpers()
		}
		w.helpers()
		if atOp() {
			w.obsMerger = append(w.obsMerger, shortHash(key))
		} else {
			w.obsMerger = nil
		}
		w.settle()
		return true
	case st[0] == 'm' || st[0] == 'p': // deviation: advance one critical section of the collection mutex
		t := w.merger
		if st[0] == 'p' {
			t = w.persister
		}
		if w.closedColl || t == nil || !w.s.Enabled(t) || (st[0] == 'p' && w.inGate) {
			return false
		}
		key := w.Key()
		data := w.dataKey()
		for sections := 0; ; sections++ {
			w.s.Step(t, 0)
			for w.s.Enabled(t) && !t.AtGateLock() && !(st[0] == 'p' && w.inGate) {
				w.s.Step(t, 0)
				w.helpers()
			}
			w.helpers()
			// "m2"/"p2": keep going through critical sections that change nothing (e.g. the merger's "is there
			// work?" look) until one has changed the collection's or the store's state
			if st[1] != '2' || !w.s.Enabled(t) || !t.AtGateLock() || (st[0] == 'p' && w.inGate) || sections > 20 || w.dataKey() != data {
				break
			}
		}
		if t.AtGateLock() {
			if st[0] == 'm' {
				w.obsMerger = append(w.obsMerger, shortHash(key))
			} else {
				w.obsPersister = append(w.obsPersister, shortHash(key))
			}
		} else {
			if st[0] == 'm' {
				w.obsMerger = nil
			} else if !w.inGate {
				w.obsPersister = nil
			}
		}
		w.settle()
		return true
	case st == "R": // clean close + reopen
		if w.cfg.Backing != "store" || w.closedColl || w.pending != nil {
			return false
		}
		w.reopen()
		return true
	}
	return w.stepHandles(st)
}

// closeAll closes collection and store through scheduled threads and runs everything to completion.
func (w *World) closeAll() {
	if w.coll != nil && !w.closedColl {
		w.gateOff = true
		w.gateFlag = true
		t := w.s.Spawn("close", func() { w.coll.Close() })
		w.mains[t.ID] = true
		w.s.SleepFree = true
		w.runAll()
		w.closedColl = true
		w.gateOff = false
		w.inGate = false
		if !t.Done {
			w.infra = "Close did not return: " + w.describeThreads()
			return
		}
	}
	if w.store != nil && !w.closedStore {
		t := w.s.Spawn("closestore", func() { w.store.Close() })
		w.mains[t.ID] = true
		w.runAll()
		w.closedStore = true
		if !t.Done {
			w.infra = "Store.Close did not return: " + w.describeThreads()
		}
	}
}

// runAll runs every thread round-robin (bounded quantum per turn, so that a thread that spins - e.g. the
// persister retrying a failing update - cannot starve the others) until nothing is enabled.
func (w *World) runAll() {
	const quantum = 64
	for n := 0; n < 2000000; {
		prog := false
		for i := 0; i < w.s.NumThreads(); i++ {
			t := w.s.Thread(i)
			for q := 0; q < quantum && w.s.Enabled(t); q++ {
				w.s.Step(t, 0)
				prog = true
				n++
			}
		}
		if !prog {
			return
		}
	}
	w.infra = "runAll: step budget exhausted: " + w.describeThreads()
}

func (w *World) describeThreads() string {
	var sb strings.Builder
	for i := 0; i < w.s.NumThreads(); i++ {
		t := w.s.Thread(i)
		if t.Done {
			continue
		}
		fmt.Fprintf(&sb, "[%d %s @%s %s en=%v] ", t.ID, t.Name, t.PendingKind(), t.PendingLabel(), w.s.Enabled(t))
	}
	return sb.String()
}

// Teardown releases everything the world holds (threads, files, directory).
func (w *World) Teardown() {
	defer func() {
		if w.dir != "" {
			os.RemoveAll(w.dir)
		}
		vs.S = nil
	}()
	defer func() { recover() }()
	for _, h := range w.handles {
		w.closeHandle(h)
	}
	w.handles = nil
	if w.infra == "" {
		w.closeAll()
	}
	alive := 0
	for i := 0; i < w.s.NumThreads(); i++ {
		if !w.s.Thread(i).Done {
			alive++
		}
	}
	if alive > 0 {
		w.killed += w.s.Kill()
	}
}

func shortHash(s string) string {
	h := sha1.Sum([]byte(s))
	return hex.EncodeToString(h[:8])
}

func threadPos(s *vs.Sched, t *vs.Thread) string {
	if t == nil {
		return "-"
	}
	if t.Done {
		return "done"
	}
	return t.PendingKind().String() + ":" + t.PendingLabel() + fmt.Sprintf(":%v", s.Enabled(t))
}

func (w *World) dirListing() string {
	if w.dir == "" {
		return ""
	}
	ents, err := os.ReadDir(w.dir)
	if err != nil {
		return "ERR"
	}
	var parts []string
	for _, e := range ents {
		fi, err := e.Info()
		sz := int64(-1)
		if err == nil {
			sz = fi.Size()
		}
		parts = append(parts, fmt.Sprintf("%s:%d", e.Name(), sz))
	}
	sort.Strings(parts)
	return strings.Join(parts, ",")
}

// Key is the canonical state key used for deduplication (see DESIGN.md section 4, "State key").
func (w *World) Key() string { return w.key(false) }

// dataKey is the part of the state key that describes moss's data structures (not where its threads stand).
func (w *World) dataKey() string {
	var sb strings.Builder
	if !w.closedColl && w.coll != nil {
		sb.WriteString(moss.VerifKey(w.coll, false))
	}
	if w.cfg.Backing == "map" {
		fmt.Fprintf(&sb, " LL=%v upd=%d", w.ll, len(w.llUpdates))
	}
	if w.store != nil && !w.closedStore {
		sb.WriteString(" ST=" + moss.VerifStoreKey(w.store, false))
		sb.WriteString(" DIR=" + w.dirListing())
	}
	return sb.String()
}

func (w *World) key(withRefs bool) string {
	var sb strings.Builder
	if w.closedColl {
		sb.WriteString("CLOSED ")
	} else {
		sb.WriteString(moss.VerifKey(w.coll, withRefs))
	}
	if w.cfg.Backing == "map" {
		ks := make([]string, 0, len(w.ll))
		for k, v := range w.ll {
			ks = append(ks, fmt.Sprintf("%q=%q", k, v))
		}
		sort.Strings(ks)
		sb.WriteString(" LL=" + strings.Join(ks, ","))
		fmt.Fprintf(&sb, " upd=%d", len(w.llUpdates))
	}
	if w.store != nil && !w.closedStore {
		sb.WriteString(" ST=" + moss.VerifStoreKey(w.store, withRefs))
		sb.WriteString(" DIR=" + w.dirListing())
	}
	fmt.Fprintf(&sb, " gate=%v pend=%v m=%s p=%s", w.inGate, w.pending != nil, threadPos(w.s, w.merger), threadPos(w.s, w.persister))
	if w.inGate {
		sb.WriteString(" higher=" + w.gateHigher)
	}
	if len(w.obsMerger) > 0 {
		sb.WriteString(" om=" + strings.Join(w.obsMerger, "."))
	}
	if len(w.obsPersister) > 0 {
		sb.WriteString(" op=" + strings.Join(w.obsPersister, "."))
	}
	// the model content is a function of the batch history; two histories that reach the same
	// private state with different reference content must not be merged.
	sb.WriteString(" MODEL=" + shortHash(w.model().Dump(nil)))
	if w.pending != nil {
		sb.WriteString(" PB=" + shortHash(fmt.Sprint(w.pendingSpec.Ops, w.pendingSpec.DelKids, len(w.pendingSpec.Kids))))
	}
	for _, h := range w.handles {
		sb.WriteString(" H=" + h.Kind + ":" + shortHash(h.Expect))
	}
	return sb.String()
}

// Heights returns (top, mid, base, clean, persisted segments) for coverage reporting.
func (w *World) Heights() [5]int {
	var r [5]int
	if w.coll != nil && !w.closedColl {
		h := moss.VerifHeights(w.coll)
		copy(r[:4], h[:])
	}
	if w.store != nil && !w.closedStore {
		r[4], _ = moss.VerifNumSegments(w.store)
	} else if w.cfg.Backing == "map" && len(w.ll) > 0 {
		r[4] = 1
	}
	return r
}

// storeDirCopy copies the store directory (for reopen-a-copy oracles).
func copyDir(src string) (string, error) {
	dst, err := os.MkdirTemp(tmpRoot(), "mossc-")
	if err != nil {
		return "", err
	}
	ents, err := os.ReadDir(src)
	if err != nil {
		return dst, err
	}
	for _, e := range ents {
		b, err := os.ReadFile(filepath.Join(src, e.Name()))
		if err != nil {
			return dst, err
		}
		if err := os.WriteFile(filepath.Join(dst, e.Name()), b, 0600); err != nil {
			return dst, err
		}
	}
	return dst, nil
}

// quiescent: no thread can run, no update is in flight, no driver call is blocked.
func (w *World) quiescent() bool {
	if w.inGate || w.pending != nil {
		return false
	}
	for i := 0; i < w.s.NumThreads(); i++ {
		if w.s.Enabled(w.s.Thread(i)) {
			return false
		}
	}
	return true
}

// reopen closes collection and store cleanly, reopens the directory and applies the reopen oracle (C04):
// (1) the reopened content equals what the store itself exposed right before it was closed,
// (2) it equals the reference content after some prefix p of the executed batches,
// (3) p = n if no dirty section held anything and no update was in flight when Close was called.
// The reference model is then cut back to that prefix (closing early legitimately loses the rest).
func (w *World) reopen() {
	// "persistence has caught up": nothing is dirty AND the system is idle - neither the merger nor the
	// persister has anything left to do (a batch that only deletes or creates a child collection leaves no
	// segment behind, so empty dirty sections alone do not mean that it was handed to the persister)
	drained := !moss.VerifCollLocked(w.coll) && moss.VerifDirtyEmpty(w.coll) && w.quiescent()
	w.closeColl()
	if w.infra != "" {
		return
	}
	var storeDump *DumpT
	if ss, err := w.store.Snapshot(); err == nil && ss != nil {
		storeDump = DumpSnapshot(ss, w.probes)
		ss.Close()
	}
	w.closeAll()
	if w.infra != "" {
		return
	}
	w.open()
	w.reopenCount++
	if w.infra != "" {
		if strings.HasPrefix(w.infra, "open failed") {
			w.viols = append(w.viols, Violation{Sig: "reopen-fails|store|any", Msg: "reopening the directory after a clean close fails: " + w.infra})
			w.infra = "stop"
		}
		return
	}
	ss, err := w.coll.Snapshot()
	if err != nil {
		w.viols = append(w.viols, Violation{Sig: "snapshot-error|collection|any", Msg: err.Error()})
		return
	}
	got := DumpSnapshot(ss, w.probes)
	ss.Close()
	w.lastReopenDump = got.String()
	n := len(w.models) - 1
	p := -1
	for i := n; i >= 0; i-- {
		if w.models[i].DumpT(w.probes).String() == got.String() {
			p = i
			break
		}
	}
	if storeDump != nil {
		if class, detail := DiffDumps(storeDump, got, "reopened collection vs store snapshot before close"); class != "" {
			w.viols = append(w.viols, Violation{Sig: "reopen-differs-from-store-before-close:" + class + "|reopen|" + w.trigger(class),
				Msg: fmt.Sprintf("clean close + reopen changed the content: %s\n  store exposed before close: %s\n  reopened:                   %s", detail, storeDump, got)})
		}
	}
	if p < 0 {
		class, detail := DiffDumps(w.models[n].DumpT(w.probes), got, "reopened collection")
		w.viols = append(w.viols, Violation{Sig: "reopen-not-a-prefix:" + class + "|reopen|" + w.trigger(class),
			Msg: fmt.Sprintf("reopened content is not the reference content after any prefix of the %d executed batches (first difference to the full reference: %s)\n  reopened: %s\n  reference after all batches: %s", n, detail, got, w.models[n].DumpT(w.probes))})
		return
	}
	if drained && p != n {
		// equal dumps for different prefixes are indistinguishable, so p is the largest matching prefix
		class, detail := DiffDumps(w.models[n].DumpT(w.probes), got, "reopened collection")
		w.viols = append(w.viols, Violation{Sig: "reopen-lost-persisted-batches:" + class + "|reopen|" + w.trigger(class),
			Msg: fmt.Sprintf("nothing was dirty and no update was in flight at Close, yet the reopened content is that after %d of %d batches: %s", p, n, detail)})
	}
	w.models = w.models[:p+1]
	if len(w.specs) > p {
		w.specs = w.specs[:p]
	}
}

// probesFor returns the keys looked up with Get in every dump: the fixed probes plus every key the alphabet writes.
func probesFor(alpha []*BatchSpec) []string {
	out := append([]string{}, probeKeys...)
	seen := map[string]bool{}
	for _, k := range out {
		seen[k] = true
	}
	var walk func(b *BatchSpec)
	walk = func(b *BatchSpec) {
		if b == nil {
			return
		}
		for _, o := range b.Ops {
			if !seen[o.Key] {
				seen[o.Key] = true
				out = append(out, o.Key)
			}
		}
		names := make([]string, 0, len(b.Kids))
		for n := range b.Kids {
			names = append(names, n)
		}
		sort.Strings(names)
		for _, n := range names {
			walk(b.Kids[n])
		}
	}
	for _, b := range alpha {
		walk(b)
	}
	return out
}
