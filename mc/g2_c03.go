package main

import (
	"fmt"
	"strings"

	"github.com/couchbase/moss"
	vs "vsched"
)

// C03 - batches become visible atomically and in order under concurrency (engine G2).

type c03View struct {
	started, ended int
	seen           [3]int // per writer: the batch number all four locations agree on (-1: torn)
	detail         string
}

type c03State struct {
	w        *World
	ev       int
	returned [3][3]int // returned[i][j] = event number at which ExecuteBatch(i,j) returned (0 = not yet)
	errs     []string
	views    []*c03View
	nWriters int
	grand    bool               // batches also write a grandchild collection K<i>/G
	syncRead bool               // the reader issues a synchronous NotifyMerger between its snapshots
	pollRead bool               // the reader yields between its snapshots (a polling reader: one snapshot per scheduling turn)
	late     *vs.Chan[struct{}] // when set: the reader starts only after writer 1's last ExecuteBatch has returned
}

func atoiOr0(b []byte) int {
	if b == nil {
		return 0
	}
	n := 0
	fmt.Sscan(string(b), &n)
	return n
}

func (st *c03State) writer(i, batches int) func() {
	return func() {
		for j := 1; j <= batches; j++ {
			b, err := st.w.coll.NewBatch(8, 128)
			if err != nil {
				st.errs = append(st.errs, fmt.Sprintf("NewBatch(w%d): %v", i, err))
				return
			}
			v := []byte(fmt.Sprint(j))
			b.Set([]byte(fmt.Sprintf("m%d", i)), v)
			b.Set([]byte(fmt.Sprintf("p%da", i)), v)
			b.Set([]byte(fmt.Sprintf("p%db", i)), v)
			cb, _ := b.NewChildCollectionBatch(fmt.Sprintf("K%d", i), moss.BatchOptions{TotalOps: 2, TotalKeyValBytes: 16})
			cb.Set([]byte("c"), v)
			if st.grand {
				gb, _ := cb.NewChildCollectionBatch("G", moss.BatchOptions{TotalOps: 2, TotalKeyValBytes: 16})
				gb.Set([]byte("g"), v)
			}
			err = st.w.coll.ExecuteBatch(b, moss.WriteOptions{})
			b.Close()
			st.ev++
			if err != nil {
				st.errs = append(st.errs, fmt.Sprintf("ExecuteBatch(w%d,%d): %v", i, j, err))
				return
			}
			st.returned[i][j] = st.ev
			if st.late != nil && i == 1 && j == batches {
				st.late.Close()
			}
		}
	}
}

func (st *c03State) reader(n int, useGet bool) func() {
	return func() {
		if st.late != nil {
			st.late.Recv2()
		}
		for k := 0; k < n; k++ {
			st.ev++
			v := &c03View{started: st.ev}
			ss, err := st.w.coll.Snapshot()
			if err != nil {
				st.errs = append(st.errs, "Snapshot: "+err.Error())
				return
			}
			var parts []string
			for i := 1; i <= st.nWriters; i++ {
				get := func(key string) int {
					b, err := ss.Get([]byte(key), moss.ReadOptions{})
					if err != nil {
						st.errs = append(st.errs, "Get: "+err.Error())
					}
					return atoiOr0(b)
				}
				m, pa, pb := get(fmt.Sprintf("m%d", i)), get(fmt.Sprintf("p%da", i)), get(fmt.Sprintf("p%db", i))
				kc, kg := 0, 0
				if cs, err := ss.ChildCollectionSnapshot(fmt.Sprintf("K%d", i)); err == nil && cs != nil {
					b, _ := cs.Get([]byte("c"), moss.ReadOptions{})
					kc = atoiOr0(b)
					if st.grand {
						if gs, err := cs.ChildCollectionSnapshot("G"); err == nil && gs != nil {
							b, _ := gs.Get([]byte("g"), moss.ReadOptions{})
							kg = atoiOr0(b)
							gs.Close()
						}
					} else {
						kg = kc
					}
					cs.Close()
				} else if !st.grand {
					kg = kc
				}
				parts = append(parts, fmt.Sprintf("w%d:%d/%d/%d/%d/%d", i, m, pa, pb, kc, kg))
				if m == pa && pa == pb && pb == kc && kc == kg {
					v.seen[i] = m
				} else {
					v.seen[i] = -1
				}
			}
			ss.Close()
			if useGet { // Collection.Get started after a batch returned must see it as well
				for i := 1; i <= st.nWriters; i++ {
					last := 0
					for j := 1; j <= 2; j++ {
						if st.returned[i][j] != 0 {
							last = j
						}
					}
					b, _ := st.w.coll.Get([]byte(fmt.Sprintf("m%d", i)), moss.ReadOptions{})
					if got := atoiOr0(b); got < last {
						st.errs = append(st.errs, fmt.Sprintf("Collection.Get(m%d) = %d after ExecuteBatch(w%d,%d) had returned", i, got, i, last))
					}
				}
			}
			v.detail = strings.Join(parts, " ")
			st.ev++
			v.ended = st.ev
			st.views = append(st.views, v)
			if st.syncRead && k+1 < n {
				st.w.coll.(interface{ NotifyMerger(string, bool) error }).NotifyMerger("reader", true)
			}
			if st.pollRead && k+1 < n {
				vs.Yield("reader-poll")
			}
		}
	}
}

func (st *c03State) final(deadlock string) []Violation {
	var out []Violation
	var o []string
	for _, v := range st.views {
		o = append(o, v.detail)
	}
	st.w.outcome = strings.Join(o, " | ")
	for _, e := range st.errs {
		out = append(out, Violation{Sig: "unexpected-error|driver|any", Msg: e})
	}
	if deadlock != "" && !st.w.closedColl {
		// background threads legitimately stay parked (nobody closes the collection in this program); drivers must be done
		for i := 0; i < st.w.s.NumThreads(); i++ {
			t := st.w.s.Thread(i)
			if !t.Done && (strings.HasPrefix(t.Name, "writer") || strings.HasPrefix(t.Name, "reader")) {
				out = append(out, Violation{Sig: "call-never-returns|driver|any", Msg: "a driver thread never finished: " + deadlock})
				break
			}
		}
	}
	prev := [3]int{}
	for k, v := range st.views {
		for i := 1; i <= st.nWriters; i++ {
			if v.seen[i] < 0 {
				out = append(out, Violation{Sig: "torn-batch|snapshot|any", Msg: fmt.Sprintf("snapshot #%d shows a partial batch of writer %d (marker/payload a/payload b/child key): %s", k+1, i, v.detail)})
				return out
			}
			if v.seen[i] < prev[i] {
				out = append(out, Violation{Sig: "snapshot-went-backwards|snapshot|any", Msg: fmt.Sprintf("snapshot #%d shows batch %d of writer %d after an earlier snapshot showed batch %d", k+1, v.seen[i], i, prev[i])})
				return out
			}
			prev[i] = v.seen[i]
			for j := 2; j >= 1; j-- {
				if r := st.returned[i][j]; r != 0 && r < v.started && v.seen[i] < j {
					out = append(out, Violation{Sig: "returned-batch-not-visible|snapshot|any",
						Msg: fmt.Sprintf("ExecuteBatch(writer %d, batch %d) had returned before snapshot #%d was started, but the snapshot shows batch %d: %s", i, j, k+1, v.seen[i], v.detail)})
					return out
				}
			}
		}
	}
	return out
}

// poll[0]: polling reader; poll[1]: late reader (starts when writer 1's second batch has returned, i.e. while the
// first persistence round is done or under way and the second one is still to come)
func c03Program(name string, cfg Config, readers int, grand, syncRead bool, poll ...bool) g2Program {
	return g2Program{Name: name, Build: func() (*World, func() *Violation, func(string) []Violation) {
		w := NewWorld(cfg, nil)
		w.gateOff = true
		st := &c03State{w: w, nWriters: 2, grand: grand, syncRead: syncRead, pollRead: len(poll) > 0 && poll[0]}
		if len(poll) > 1 && poll[1] {
			st.late = vs.MakeChan[struct{}](0)
		}
		if w.infra != "" {
			return w, nil, st.final
		}
		for i := 1; i <= 2; i++ {
			t := w.s.Spawn(fmt.Sprintf("writer%d", i), st.writer(i, 2))
			w.mains[t.ID] = true
		}
		t := w.s.Spawn("reader", st.reader(readers, true))
		w.mains[t.ID] = true
		return w, nil, st.final
	}}
}

func init() {
	g2Programs["C03"] = func(tier string) []g2Program {
		progs := []g2Program{
			c03Program("two writers x 2 self-identifying batches (3 keys + child key), reader x 3 snapshots, in-memory, MaxPreMergerBatches=1", Config{Backing: "none", MinMergePct: 100, MaxPre: 1}, 3, false, false),
			c03Program("same, store-backed (real Persist in the persister thread), CachePersisted", Config{Backing: "store", MinMergePct: 0.01, MaxPre: 1, CachePersisted: true}, 2, false, false),
			c03Program("batches also write a grandchild collection, MaxPreMergerBatches=2 (two unmerged batches side by side), in-memory", Config{Backing: "none", MinMergePct: 100, MaxPre: 2}, 3, true, false),
			c03Program("reader x 4 snapshots with a synchronous NotifyMerger between them, MaxPreMergerBatches=1, in-memory", Config{Backing: "none", MinMergePct: 100, MaxPre: 1}, 4, false, true),
			c03Program("polling reader x 4 snapshots (yields between snapshots), MaxPreMergerBatches=1, in-memory", Config{Backing: "none", MinMergePct: 100, MaxPre: 1}, 4, false, false, true),
			c03Program("late polling reader x 4 snapshots (starts once writer 1's second batch has returned), store-backed, CachePersisted", Config{Backing: "store", MinMergePct: 0.01, MaxPre: 1, CachePersisted: true}, 4, false, false, true, true),
		}
		if tier == "thorough" {
			progs = append(progs, c03Program("store-backed with forced compaction, DeferredSort, grandchild", Config{Backing: "store", MinMergePct: 100, MaxPre: 1, Concern: 2, DeferredSort: true}, 2, true, false))
		}
		return progs
	}
	engines["C03"] = checkG2
}
