package main

import (
	"encoding/json"
	"fmt"
	"os"
	"path/filepath"
	"sort"
	"strings"
	"time"

	"github.com/couchbase/moss"
)

// ---------------------------------------------------------------- workloads shared by C05 / C06 / C18

// Workload is a fixed history driven through the real write path with the recording file layer.
type Workload struct {
	Name  string
	Cfg   Config
	Alpha []*BatchSpec
	Steps []string // B<i>, M, P (= one persistence round incl. retries), V<k> (= revert k rounds back, reopen), R
}

func kv(pairs ...string) *BatchSpec {
	b := &BatchSpec{}
	for i := 0; i+1 < len(pairs); i += 2 {
		if pairs[i+1] == "<del>" {
			b.Ops = append(b.Ops, Op{Kind: 'D', Key: pairs[i]})
		} else {
			b.Ops = append(b.Ops, Op{Kind: 'S', Key: pairs[i], Val: pairs[i+1]})
		}
	}
	return b
}

func workloads(nosync bool) []Workload {
	big := strings.Repeat("x", 5000)
	mop := func(b *BatchSpec, operand string) *BatchSpec {
		b.Ops = append(b.Ops, Op{Kind: 'M', Key: "m", Val: operand}) // a merge operand: a round applied twice shows
		return b
	}
	alpha := []*BatchSpec{
		mop(kv("a", "1", "marker", "r1"), "x1"),
		mop(kv("b", "2", "marker", "r2", "a", "<del>"), "x2"),
		kv("c", big, "marker", "r3"),
		mop(kv("a", "4", "marker", "r4"), "x4"),
		kv("d", "5", "marker", "r5", "b", "<del>"),
		kv("a", "<del>", "b", "<del>", "c", "<del>", "d", "<del>", "marker", "<del>", "m", "<del>"), // deletes everything
	}
	childAlpha := []*BatchSpec{
		{Ops: kv("a", "1", "marker", "r1").Ops, Kids: kid("A", kv("ca", "1"))},
		{Kids: kid("A", kv("cb", "2", "ca", "<del>"))}, // a round that writes to the child collection only
		{Ops: kv("b", "3", "marker", "r3").Ops},
	}
	c := func(cc int) Config {
		return Config{Backing: "store", MinMergePct: 100, Concern: cc, NoSync: nosync, VFS: true, MaxSegs: 2, Mult: 2, MergeOp: true}
	}
	lv := c(1) // leveled compaction that really reaches a partial (in-place) compaction with these batch sizes
	lv.CompactPct = 0.99
	return []Workload{
		{"W-a: three appending rounds", c(0), alpha, []string{"B0", "M", "P", "B1", "M", "P", "B2", "M", "P"}},
		{"W-b: forced full compaction every round", c(2), alpha, []string{"B0", "M", "P", "B1", "M", "P", "B2", "M", "P"}},
		{"W-c: five rounds, leveled compaction (three appends, a partial compaction, then a full one)", lv, alpha, []string{"B0", "M", "P", "B2", "M", "P", "B0", "M", "P", "B2", "M", "P", "B2", "M", "P"}},
		{"W-d: two rounds, revert to the first, one more round", c(0), alpha, []string{"B0", "M", "P", "B1", "M", "P", "V1", "B3", "M", "P"}},
		{"W-e: three appending rounds with a child collection (the second one writes to the child only)", c(0), childAlpha, []string{"B0", "M", "P", "B1", "M", "P", "B2", "M", "P"}},
		{"W-f: leveled compaction, history ends right after a partial compaction (four rounds)", lv, alpha, []string{"B0", "M", "P", "B2", "M", "P", "B0", "M", "P", "B2", "M", "P"}},
		{"W-h: forced compaction, second round deletes everything (the new file holds a footer only)", c(2), alpha, []string{"B0", "M", "P", "B5", "M", "P", "B3", "M", "P"}},
		{"W-g: leveled compaction, partial compaction in the fifth round", lv, alpha, []string{"B0", "M", "P", "B2", "M", "P", "B0", "M", "P", "B0", "M", "P", "B1", "M", "P"}},
		// the store is closed and opened again before the compactions: the data file was not started by this Store value
		{"W-i: one round, clean close + reopen, then forced full compaction in every round", c(2), alpha, []string{"B0", "M", "P", "R", "B1", "M", "P", "B3", "M", "P"}},
		{"W-j: a large first round, clean close + reopen, then leveled compaction (append, partial compaction)", lv, alpha, []string{"B2", "M", "P", "R", "B0", "M", "P", "B3", "M", "P", "B0", "M", "P"}},
	}
}

// PersistRound runs one persistence round (persister enters the update, update returns) and, if the
// update fails, lets the persister retry up to maxRetries more times.  It reports whether a round succeeded.
func (w *World) PersistRound(maxRetries int) (ok bool, attempts int) {
	if w.closedColl || w.persister == nil {
		return false, 0
	}
	before := w.persistOK
	for attempts = 0; attempts <= maxRetries; attempts++ {
		if !w.inGate {
			if !w.s.Enabled(w.persister) {
				return w.persistOK > before, attempts
			}
			w.run(w.persister)
			w.settle()
		}
		if !w.inGate {
			return w.persistOK > before, attempts
		}
		w.gateMode, w.gateFlag = 1, true
		w.run(w.persister)
		w.settle()
		if w.persistOK > before {
			return true, attempts + 1
		}
	}
	return false, attempts
}

// storePrefix returns the largest p such that the store's own snapshot equals the reference content after p batches (-1: none).
// storePrefixes returns every index i whose reference content equals what the store's own snapshot shows (ascending).
// Several indices match when batches restore an earlier content (e.g. a batch that deletes everything).
func (w *World) storePrefixes() ([]int, *DumpT) {
	if w.store == nil || w.closedStore {
		return nil, nil
	}
	ss, err := w.store.Snapshot()
	if err != nil || ss == nil {
		return nil, nil
	}
	d := DumpSnapshot(ss, w.probes)
	ss.Close()
	var out []int
	for i := range w.models {
		if w.models[i].DumpT(w.probes).String() == d.String() {
			out = append(out, i)
		}
	}
	return out, d
}

// storePrefix returns the largest index whose reference content equals the store's own snapshot (-1: none).
func (w *World) storePrefix() (int, *DumpT) {
	if w.store == nil || w.closedStore {
		return -1, nil
	}
	ss, err := w.store.Snapshot()
	if err != nil || ss == nil {
		return -1, nil
	}
	d := DumpSnapshot(ss, w.probes)
	ss.Close()
	for i := len(w.models) - 1; i >= 0; i-- {
		if w.models[i].DumpT(w.probes).String() == d.String() {
			return i, d
		}
	}
	return -1, d
}

// revert closes the collection, walks k footers back, reverts the store to that snapshot and reopens everything.
func (w *World) revert(k int) string {
	w.closeColl()
	if w.infra != "" {
		return w.infra
	}
	var msg string
	t := w.s.Spawn("revert", func() {
		cur, err := w.store.Snapshot()
		if err != nil || cur == nil {
			msg = "store.Snapshot failed"
			return
		}
		for i := 0; i < k; i++ {
			prev, err := w.store.SnapshotPrevious(cur)
			cur.Close()
			if err != nil || prev == nil {
				msg = fmt.Sprintf("SnapshotPrevious step %d: %v %v", i, prev, err)
				return
			}
			cur = prev
		}
		if err := w.store.SnapshotRevert(cur); err != nil {
			msg = "SnapshotRevert: " + err.Error()
		}
		cur.Close()
	})
	w.mains[t.ID] = true
	w.runAll()
	if !t.Done {
		return "revert did not return"
	}
	if msg != "" {
		return msg
	}
	p, d := w.storePrefix()
	if p >= 0 {
		w.models = w.models[:p+1]
	}
	if w.vfs != nil && d != nil {
		w.vfs.Mark(p, d.String())
	}
	w.closeAll()
	w.open()
	return w.infra
}

// runWorkload executes the workload; after every successful persistence round it records an ack marker.
func runWorkload(wl Workload, fault *faultSpec, each func(w *World, step string, ok bool) bool) (*World, string) {
	w := NewWorld(wl.Cfg, wl.Alpha)
	if w.infra != "" {
		return w, w.infra
	}
	w.probes = []string{"marker", "a", "b", "c", "d", "m"}
	w.markAcks = true
	if w.vfs != nil {
		w.vfs.Fault = fault
	}
	for _, st := range wl.Steps {
		ok := true
		switch {
		case st == "P":
			ok, w.lastAttempts = w.PersistRound(3)
			// the acknowledgement marker is recorded by the update gate at the very moment Persist returns success
		case st[0] == 'V':
			if msg := w.revert(int(st[1] - '0')); msg != "" {
				return w, "revert: " + msg
			}
		default:
			if !w.Step(st) {
				return w, "workload step " + st + " not enabled"
			}
		}
		if w.infra != "" {
			return w, w.infra
		}
		if each != nil && !each(w, st, ok) {
			break
		}
	}
	return w, ""
}

// ---------------------------------------------------------------- crash images (C05)

type memFile struct {
	synced  []byte
	pending []vfsOp // unsynced writes, in order
}

type diskState struct {
	files map[string]*memFile
	order []string
}

func newDiskState() *diskState { return &diskState{files: map[string]*memFile{}} }

func applyWrite(content []byte, off int64, data []byte) []byte {
	end := int(off) + len(data)
	if end > len(content) {
		content = append(content, make([]byte, end-len(content))...)
	}
	copy(content[off:], data)
	return content
}

// apply advances the durable-state model by one recorded operation.
func (d *diskState) apply(o vfsOp) {
	switch o.Kind {
	case "create":
		if _, ok := d.files[o.File]; !ok {
			d.order = append(d.order, o.File)
		}
		d.files[o.File] = &memFile{}
	case "unlink":
		delete(d.files, o.File)
	case "write":
		if f := d.files[o.File]; f != nil {
			f.pending = append(f.pending, o)
		}
	case "sync":
		if f := d.files[o.File]; f != nil {
			for _, p := range f.pending {
				f.synced = applyWrite(f.synced, p.Off, p.Data)
			}
			f.pending = nil
		}
	}
}

type block struct {
	file string
	off  int64
	data []byte
}

// blocks splits the unsynced writes into page-aligned blocks (the unit the crash model may drop).
func (d *diskState) blocks() []block {
	var out []block
	names := make([]string, 0, len(d.files))
	for n := range d.files {
		names = append(names, n)
	}
	sort.Strings(names)
	for _, n := range names {
		for _, p := range d.files[n].pending {
			off, data := p.Off, p.Data
			for len(data) > 0 {
				k := int(4096 - off%4096)
				if k > len(data) {
					k = len(data)
				}
				out = append(out, block{n, off, data[:k]})
				off += int64(k)
				data = data[k:]
			}
		}
	}
	return out
}

// image is one post-crash directory: file name -> content.
type image struct {
	files map[string][]byte
	desc  string
}

func (d *diskState) baseImage() map[string][]byte {
	m := map[string][]byte{}
	for n, f := range d.files {
		m[n] = append([]byte(nil), f.synced...)
	}
	return m
}

func maxExtent(f *memFile) int {
	n := len(f.synced)
	for _, p := range f.pending {
		if e := int(p.Off) + len(p.Data); e > n {
			n = e
		}
	}
	return n
}

// images enumerates the post-crash directories allowed after the operations applied so far, where
// `torn` (optional) is the write that was in progress when the machine stopped.
func (d *diskState) images(torn *vfsOp, processKillOnly bool, capped *bool) []image {
	var out []image
	bl := d.blocks()
	addLengthVariants := func(base map[string][]byte, desc string) {
		// length metadata may have been updated although the data blocks were lost, and vice versa
		for n, f := range d.files {
			ext := maxExtent(f)
			if ext <= len(f.synced) {
				continue
			}
			seen := map[int]bool{len(base[n]): true}
			for b := (len(f.synced)/4096 + 1) * 4096; b <= ext+4096; b += 4096 {
				for _, dlt := range []int{0, 1, 19, 20, 21, 4095} {
					l := b - 4096 + dlt
					if l <= len(f.synced) || l > ext || seen[l] {
						continue
					}
					seen[l] = true
					img := map[string][]byte{}
					for k, v := range base {
						img[k] = v
					}
					c := append([]byte(nil), base[n]...)
					if l < len(c) {
						c = c[:l]
					} else {
						c = append(c, make([]byte, l-len(c))...)
					}
					img[n] = c
					out = append(out, image{img, fmt.Sprintf("%s; length of %s = %d", desc, n, l)})
				}
			}
			if !seen[ext] {
				img := map[string][]byte{}
				for k, v := range base {
					img[k] = v
				}
				img[n] = append(append([]byte(nil), base[n]...), make([]byte, ext-len(base[n]))...)
				out = append(out, image{img, fmt.Sprintf("%s; length of %s = %d (max extent)", desc, n, ext)})
			}
		}
	}
	build := func(mask uint64) map[string][]byte {
		img := d.baseImage()
		for i, b := range bl {
			if mask&(1<<uint(i)) != 0 {
				img[b.file] = applyWrite(img[b.file], b.off, b.data)
			}
		}
		return img
	}
	full := uint64(1)<<uint(len(bl)) - 1
	if processKillOnly {
		out = append(out, image{build(full), "process kill: all operations so far applied"})
	} else {
		n := len(bl)
		if n > 10 {
			*capped = true
			// too many unsynced blocks: all, none, every single block dropped, every single block kept
			masks := []uint64{0, full}
			for i := 0; i < n; i++ {
				masks = append(masks, full&^(1<<uint(i)), 1<<uint(i))
			}
			for _, m := range masks {
				out = append(out, image{build(m), fmt.Sprintf("unsynced block subset %b of %d blocks (capped enumeration)", m, n)})
			}
		} else {
			for m := uint64(0); m <= full; m++ {
				out = append(out, image{build(m), fmt.Sprintf("unsynced block subset %0*b of %d blocks", n, m, n)})
			}
		}
		addLengthVariants(build(0), "no unsynced block applied")
		if full != 0 {
			addLengthVariants(build(full), "all unsynced blocks applied")
		}
	}
	if torn != nil {
		L := len(torn.Data)
		var ts []int
		if L <= 600 {
			for t := 0; t < L; t++ {
				ts = append(ts, t)
			}
		} else {
			for _, t := range []int{0, 1, 19, 20, 21, 4095, 4096, 4097, L - 1} {
				if t < L {
					ts = append(ts, t)
				}
			}
		}
		bases := []uint64{full}
		if !processKillOnly && full != 0 {
			bases = append(bases, 0)
		}
		for _, bm := range bases {
			for _, t := range ts {
				img := build(bm)
				if _, ok := img[torn.File]; !ok {
					continue
				}
				if t > 0 {
					img[torn.File] = applyWrite(img[torn.File], torn.Off, torn.Data[:t])
				}
				out = append(out, image{img, fmt.Sprintf("write of %d bytes at %d of %s torn after %d bytes (earlier unsynced blocks: %b)", L, torn.Off, torn.File, t, bm)})
			}
		}
	}
	return out
}

type c05Job struct {
	WL     int  `json:"wl"`
	NoSync bool `json:"nosync"`
	From   int  `json:"from"` // crash points [From,To)
	To     int  `json:"to"`
}

type c05Res struct {
	Images    int         `json:"images"`
	Points    int         `json:"points"`
	Ops       int         `json:"ops"`
	Outcomes  map[int]int `json:"outcomes"` // reopened prefix -> count
	Capped    bool        `json:"capped"`
	MaxBlocks int         `json:"max_blocks"`
	Viols     []Violation `json:"viols,omitempty"`
	Sample    string      `json:"sample,omitempty"`
	Infra     string      `json:"infra,omitempty"`
	DirStates []string    `json:"-"`
}

func init() {
	workerHandlers["c05"] = func(data json.RawMessage) (any, error) {
		var j c05Job
		if err := json.Unmarshal(data, &j); err != nil {
			return nil, err
		}
		return c05Run(j), nil
	}
	engines["C05"] = checkC05
}

// recordTrace runs the workload twice and requires identical traces (nondeterminism check).
func recordTrace(wl Workload) ([]vfsOp, string) {
	var ops [2][]vfsOp
	for i := 0; i < 2; i++ {
		w, infra := runWorkload(wl, nil, nil)
		if infra == "" {
			w.closeAll()
			infra = w.infra
		}
		ops[i] = w.vfs.Ops
		w.Teardown()
		if infra != "" {
			return nil, infra
		}
	}
	if len(ops[0]) != len(ops[1]) {
		return nil, fmt.Sprintf("trace recording is not deterministic: %d vs %d operations", len(ops[0]), len(ops[1]))
	}
	for i := range ops[0] {
		a, b := ops[0][i], ops[1][i]
		if a.Kind != b.Kind || a.File != b.File || a.Off != b.Off || a.Len != b.Len {
			return nil, fmt.Sprintf("trace recording is not deterministic at operation %d: %v vs %v", i, a, b)
		}
	}
	return ops[0], ""
}

func writeImage(img image) (string, error) {
	dir, err := os.MkdirTemp(tmpRoot(), "mossimg-")
	if err != nil {
		return "", err
	}
	for n, c := range img.files {
		if err := os.WriteFile(filepath.Join(dir, n), c, 0600); err != nil {
			return dir, err
		}
	}
	return dir, nil
}

// openImage opens the directory like an application would and returns what it shows.
func openImage(cfg Config, dir string, probes []string) (dump *DumpT, errs string, leftover []string) {
	cfg.VFS = false
	w := &World{cfg: cfg, mains: map[int]bool{}, probes: probes, ll: map[string]string{}}
	w.s = newSched(cfg)
	defer func() {
		alive := 0
		for i := 0; i < w.s.NumThreads(); i++ {
			if !w.s.Thread(i).Done {
				alive++
			}
		}
		if alive > 0 {
			w.s.Kill()
		}
	}()
	d, e := w.openDump(dir)
	if e != "" {
		return nil, e, nil
	}
	ents, _ := os.ReadDir(dir)
	for _, en := range ents {
		leftover = append(leftover, en.Name())
	}
	return d, "", leftover
}

func c05Run(j c05Job) (res c05Res) {
	wl := workloads(j.NoSync)[j.WL]
	ops, infra := recordTrace(wl)
	if infra != "" {
		res.Infra = infra
		return
	}
	res.Ops = len(ops)
	res.Outcomes = map[int]int{}
	probes := []string{"marker", "a", "b", "c", "d", "m"}
	// exposed[k] = what the store exposed after the k-th acknowledgement (exposed[0] = empty store)
	exposed := []string{NewNode().DumpT(probes).String()}
	for _, o := range ops {
		if o.Kind == "mark" {
			exposed = append(exposed, o.Note)
		}
	}
	d := newDiskState()
	acks := 0 // acknowledgements before the crash point
	seenImg := map[string]bool{}
	for i := 0; i <= len(ops); i++ {
		// crash point i: operations [0,i) have returned; operation i (if a write) may be torn
		if i >= j.From && i < j.To {
			res.Points++
			var torn *vfsOp
			if i < len(ops) && ops[i].Kind == "write" {
				torn = &ops[i]
			}
			if nb := len(d.blocks()); nb > res.MaxBlocks {
				res.MaxBlocks = nb
			}
			for _, img := range d.images(torn, j.NoSync, &res.Capped) {
				key := fmt.Sprintf("%d|%s", acks, imageKey(img)) // the same image is checked again once more has been acknowledged
				if seenImg[key] {
					continue
				}
				seenImg[key] = true
				res.Images++
				dir, err := writeImage(img)
				if err != nil {
					res.Infra = err.Error()
					os.RemoveAll(dir)
					return
				}
				dump, oerr, left := openImage(wl.Cfg, dir, probes)
				os.RemoveAll(dir)
				where := fmt.Sprintf("%s (NoSync=%v), crash at operation %d/%d (%s), image: %s", wl.Name, j.NoSync, i, len(ops), opAt(ops, i), img.desc)
				// allowed: the state acknowledged last, or the one of the round in progress;
				// with NoSync (process kill, nothing acknowledged as durable) any state exposed so far
				lo, hi := acks, acks+1
				if j.NoSync {
					lo = 0
				}
				if hi >= len(exposed) {
					hi = len(exposed) - 1
				}
				got := -1
				if oerr == "" {
					for k := hi; k >= 0; k-- {
						if exposed[k] == dump.String() {
							got = k
							break
						}
					}
				}
				switch {
				case oerr != "":
					class := "open-fails"
					if strings.Contains(oerr, "panic") {
						class = "open-panics"
					}
					res.Viols = append(res.Viols, Violation{Prop: "C05", Sig: class + "|" + crashPhase(ops, i) + "|" + openErrClass(oerr),
						Msg: where + ": reopening fails: " + oerr})
				case got < 0:
					res.Viols = append(res.Viols, Violation{Prop: "C05", Sig: "not-a-prefix|" + crashPhase(ops, i) + "|any",
						Msg: fmt.Sprintf("%s: reopened content is none of the contents the store exposed up to the round in progress: %s", where, dump)})
				case got < lo:
					res.Viols = append(res.Viols, Violation{Prop: "C05", Sig: "acknowledged-round-lost|" + crashPhase(ops, i) + "|any",
						Msg: fmt.Sprintf("%s: reopened content is the one exposed after acknowledgement %d (%s), but acknowledgement %d had been given with syncing enabled (%s)", where, got, dump, lo, exposed[lo])})
				default:
					res.Outcomes[got]++
					nd := 0
					for _, n := range left {
						if isDataFile(n) {
							nd++
						}
					}
					if nd > 1 {
						res.Viols = append(res.Viols, Violation{Prop: "C05", Sig: "stale-files-after-open|" + crashPhase(ops, i) + "|any",
							Msg: fmt.Sprintf("%s: after a successful open the directory still holds %v", where, left)})
					}
				}
				if res.Sample == "" && torn != nil {
					res.Sample = where + fmt.Sprintf(" -> reopened to exposed state #%d", got)
				}
				if len(res.Viols) >= 6 {
					return
				}
			}
		}
		if i < len(ops) {
			if ops[i].Kind == "mark" {
				acks++
			}
			d.apply(ops[i])
		}
	}
	return
}

func imageKey(img image) string {
	names := make([]string, 0, len(img.files))
	for n := range img.files {
		names = append(names, n)
	}
	sort.Strings(names)
	var sb strings.Builder
	for _, n := range names {
		fmt.Fprintf(&sb, "%s:%d:%x;", n, len(img.files[n]), hashBytes(img.files[n]))
	}
	return sb.String()
}

func opAt(ops []vfsOp, i int) string {
	if i >= len(ops) {
		return "end of trace"
	}
	return "before/during: " + ops[i].String()
}

// crashPhase classifies a crash point for violation signatures: which kind of file operation was next
// and whether any footer had been completed before.
func crashPhase(ops []vfsOp, i int) string {
	marks := 0
	for k := 0; k < i && k < len(ops); k++ {
		if ops[k].Kind == "mark" {
			marks++
		}
	}
	next := "end"
	if i < len(ops) {
		next = ops[i].Kind
	}
	if marks == 0 {
		return "before-first-ack:" + next
	}
	return "after-ack:" + next
}

func openErrClass(e string) string {
	switch {
	case strings.Contains(e, "EOF"):
		return "EOF"
	case strings.Contains(e, "could not open/parse any file"):
		return "no-file-usable"
	case strings.Contains(e, "readHeader"):
		return "header"
	case strings.Contains(e, "panic"):
		return "panic"
	}
	return "other"
}

func checkC05(prop, tier string) int {
	t0 := time.Now()
	var jobs []Job
	type meta struct {
		wl     string
		nosync bool
	}
	var metas []meta
	modes := []bool{false}
	wlIdx := []int{0, 1, 2, 3, 4, 5, 6}
	if tier == "thorough" {
		modes = []bool{false, true}
		wlIdx = []int{0, 1, 2, 3, 4, 5, 6, 7}
	} else {
		// quick: the NoSync (process-kill) model for the compaction workload only
		jobs = append(jobs, Job{Kind: "c05", Data: mustJSON(c05Job{WL: 1, NoSync: true, From: 0, To: 1 << 30})})
		metas = append(metas, meta{workloads(true)[1].Name, true})
	}
	for _, ns := range modes {
		for _, wi := range wlIdx {
			// the trace length is only known to the worker; shard by generous fixed ranges of crash points
			for from := 0; from < 400; from += 12 {
				jobs = append(jobs, Job{Kind: "c05", Data: mustJSON(c05Job{WL: wi, NoSync: ns, From: from, To: from + 12})})
				metas = append(metas, meta{workloads(ns)[wi].Name, ns})
			}
		}
	}
	pool := NewPool()
	pool.JobTimeout = 10 * time.Minute
	results := pool.Run(jobs)
	var tot c05Res
	tot.Outcomes = map[int]int{}
	infra := 0
	var viols []Violation
	seen := map[string]bool{}
	var samples []any
	perWL := map[string]int{}
	opsPerWL := map[string]int{}
	for i, r := range results {
		if r.Crashed || r.Err != "" {
			if v := crashViolation(pool, "C05", jobs[i], r); v != nil {
				viols = append(viols, *v)
				continue
			}
			infra++
			fmt.Fprintf(os.Stderr, "INFRA: c05 job %d: %s %s\n", i, r.Err, tail(r.Stderr, 600))
			continue
		}
		var cr c05Res
		json.Unmarshal(r.Data, &cr)
		if cr.Infra != "" {
			infra++
			fmt.Fprintf(os.Stderr, "INFRA: c05 job %d (%s): %s\n", i, metas[i].wl, cr.Infra)
			continue
		}
		tot.Images += cr.Images
		tot.Points += cr.Points
		tot.Capped = tot.Capped || cr.Capped
		if cr.MaxBlocks > tot.MaxBlocks {
			tot.MaxBlocks = cr.MaxBlocks
		}
		name := fmt.Sprintf("%s nosync=%v", metas[i].wl, metas[i].nosync)
		perWL[name] += cr.Images
		opsPerWL[name] = cr.Ops
		for p, c := range cr.Outcomes {
			tot.Outcomes[p] += c
		}
		if cr.Sample != "" && len(samples) < 6 && i%7 == 0 {
			samples = append(samples, cr.Sample)
		}
		for _, v := range cr.Viols {
			if !seen[v.Sig] {
				seen[v.Sig] = true
				viols = append(viols, v)
			}
		}
	}
	viols = reportViolations("C05", "G3", viols)
	if len(samples) == 0 {
		samples = append(samples, "none")
	}
	writeEvidence(&Evidence{PropertyID: "C05", Tier: tier, Violations: len(viols), WallS: time.Since(t0).Seconds(), Assumptions: append([]string{
		"crash model: directory operations (create, unlink) durable and ordered; file content = content at the last Sync plus any subset of the page-aligned blocks of later writes, the write in progress torn at the listed byte counts, un-synced length at the listed values; NoSync runs use the process-kill model (operations applied in order, last one torn)"}, commonAssumptions...),
		Coverage: map[string]any{
			"states":                        tot.Images,
			"transitions":                   tot.Images,
			"traces_validated_against_impl": tot.Images,
			"evaluations":                   tot.Images,
			"distinct_nontrivial":           len(tot.Outcomes),
			"rule":                          "for each workload the file-operation trace of the real write path is recorded (twice, must be identical); for every crash point and every disk image the crash model allows there (deduplicated by content) the directory is reconstructed and reopened with the real OpenStoreCollection; states = distinct images reopened; distinct_nontrivial = distinct reopened prefixes",
			"samples":                       samples,
			"exhaustive":                    infra == 0 && !tot.Capped,
			"crash_points":                  tot.Points,
			"images_per_workload":           perWL,
			"trace_length_per_workload":     opsPerWL,
			"reopened_prefix_histogram":     tot.Outcomes,
			"max_unsynced_blocks":           tot.MaxBlocks,
			"subset_enumeration_capped":     tot.Capped,
			"infrastructure_errors":         infra,
		}})
	fmt.Fprintf(os.Stderr, "[C05 %s] images=%d points=%d outcomes=%v maxblocks=%d capped=%v violations=%d infra=%d wall=%.1fs\n", tier, tot.Images, tot.Points, tot.Outcomes, tot.MaxBlocks, tot.Capped, len(viols), infra, time.Since(t0).Seconds())
	if len(viols) > 0 {
		return 1
	}
	if infra > 0 && tot.Images == 0 {
		return 2
	}
	return 0
}

var _ = moss.ErrClosed
