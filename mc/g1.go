package main

import (
	"encoding/json"
	"fmt"
	"os"
	"runtime/debug"
	"sort"
	"strings"
	"time"
)

// Violation is one divergence reported by an oracle.
type Violation struct {
	Prop string `json:"prop"`
	Sig  string `json:"sig"` // kind|where|trigger - matched exactly against known_findings.json
	Msg  string `json:"msg"`
	// Replay (optional): what `mossmc replay` needs to re-execute the violating case (engine-specific).
	Replay map[string]any `json:"replay,omitempty"`
}

// G1Spec describes one explicit-state search over step sequences (engine G1).
type G1Spec struct {
	Prop     string
	Configs  []Config
	Alpha    []*BatchSpec
	Steps    []string // coarse non-batch steps
	Devs     []string // deviation steps (count against MaxK)
	MaxB     int      // batches per history
	MaxD     int      // steps per history
	MaxK     int      // deviations per history
	MaxR     int      // reopen steps per history
	MaxH     int      // handle-opening steps per history
	Deadline time.Duration
	// Check is the oracle, evaluated in every reached state.  It may destroy the world.
	Check func(w *World, path []string) []Violation
	// Roots (optional): the search is started from the state reached by each of these step sequences
	// (in addition to the initial state); steps of a root are not counted against the bounds.  A root that
	// cannot be replayed under a configuration (e.g. persister steps without a lower level) is skipped there.
	Roots [][]string
	// Terminal (optional) is a destructive end-of-history phase with several variants (e.g. close orders):
	// it is called with variant 0, 1, ... on freshly replayed instances until it reports more == false.
	Terminal func(w *World, variant int) (viols []Violation, more bool)
	// ExtraKey adds property-specific components to the state key.
	ExtraKey func(w *World) string
	WithRefs bool
	Note     string
	// NoPlainBatches: the batches of Alpha are only executed as part of macro steps listed in Steps.
	NoPlainBatches bool
	// Share is this search's fraction of the property's time budget when several searches decide a property
	// (0: an equal share).
	Share float64
}

var g1Specs = map[string]func(tier string) *G1Spec{}

// g1DeadlineShare divides a property's time budget among the searches of its group.
var g1DeadlineShare = 1

type g1Req struct {
	Prop string   `json:"prop"`
	Tier string   `json:"tier"`
	Cfg  int      `json:"cfg"`
	Path []string `json:"path"`
	Only string   `json:"only,omitempty"` // expand only this step (confirmation runs)
	Root int      `json:"root,omitempty"` // length of the root prefix of Path (not counted against the bounds)
}

type g1Succ struct {
	Step      string      `json:"step"`
	Key       string      `json:"key"`
	Heights   [5]int      `json:"h"`
	Viols     []Violation `json:"viols,omitempty"`
	Infra     string      `json:"infra,omitempty"`
	Killed    int         `json:"killed,omitempty"`
	Terminals int         `json:"terminals,omitempty"`
	Comp      [2]int      `json:"comp,omitempty"` // full / partial compactions of the store since it was (re)opened
}

type g1Resp struct {
	Succ  []g1Succ `json:"succ"`
	Infra string   `json:"infra,omitempty"`
}

func init() {
	workerHandlers["g1expand"] = func(data json.RawMessage) (any, error) {
		var req g1Req
		if err := json.Unmarshal(data, &req); err != nil {
			return nil, err
		}
		return g1Expand(req), nil
	}
}

func countSteps(path []string) (nB, nK, nR, nH int) {
	for _, p := range path {
		switch {
		case p[0] == 'B':
			nB++
		case p == "m1" || p == "p1" || p == "m2" || p == "p2" || p == "m3":
			nK++
		case p == "R":
			nR++
		case strings.HasSuffix(p, "+"):
			nH++
		}
	}
	return
}

func (sp *G1Spec) candidates(path []string) []string {
	nB, nK, nR, nH := countSteps(path)
	var out []string
	if nB < sp.MaxB && !sp.NoPlainBatches {
		for i := range sp.Alpha {
			out = append(out, fmt.Sprintf("B%d", i))
		}
	}
	for _, st := range sp.Steps {
		if st == "R" && nR >= sp.MaxR {
			continue
		}
		if st[0] == 'B' && nB >= sp.MaxB {
			continue // a macro step that starts with a batch
		}
		if strings.HasSuffix(st, "+") && nH >= sp.MaxH {
			continue
		}
		out = append(out, st)
	}
	if nK < sp.MaxK {
		out = append(out, sp.Devs...)
	}
	return out
}

// replayWorld builds a fresh world and replays path; every step must be enabled.
func replayWorld(sp *G1Spec, cfg Config, path []string) (*World, string) {
	if cfg.BufPages == 0 {
		// moss clears four buffers of CompactionBufferPages pages (2 MB each by default) in every compaction, which
		// dominated the cost of a replay; the G1 alphabets write a few hundred bytes, so two pages behave the same.
		cfg.BufPages = 2
	}
	w := NewWorld(cfg, sp.Alpha)
	if w.infra != "" {
		return w, w.infra
	}
	for i, st := range path {
		if !w.Step(st) {
			return w, fmt.Sprintf("replay divergence: step %d (%s) of %v not enabled", i, st, path)
		}
		if w.infra != "" {
			return w, w.infra
		}
	}
	return w, ""
}

func g1Expand(req g1Req) (resp g1Resp) {
	mk, ok := g1Specs[req.Prop]
	if !ok {
		return g1Resp{Infra: "no G1 spec for " + req.Prop}
	}
	sp := mk(req.Tier)
	cfg := sp.Configs[req.Cfg]
	debug.SetPanicOnFault(true)
	if req.Root > len(req.Path) {
		req.Root = len(req.Path)
	}
	cands := sp.candidates(req.Path[req.Root:])
	if req.Only != "" {
		if req.Only == "." { // check the state reached by Path itself
			cands = []string{"."}
		} else {
			cands = []string{req.Only}
		}
	}
	w0, infra0 := replayWorld(sp, cfg, req.Path)
	var enabledSteps []string
	for _, st := range cands {
		if st == "." || infra0 != "" || w0.CanStep(st) {
			enabledSteps = append(enabledSteps, st)
		}
	}
	if len(enabledSteps) == 0 {
		func() {
			defer func() { recover() }()
			w0.Teardown()
		}()
	}
	for i, st := range enabledSteps {
		succ := func() (s g1Succ, enabled bool) {
			s.Step = st
			w, infra := w0, infra0
			if i > 0 {
				w, infra = replayWorld(sp, cfg, req.Path)
			}
			defer func() {
				if r := recover(); r != nil {
					s.Viols = append(s.Viols, Violation{Prop: sp.Prop, Sig: "panic|harness-call|any",
						Msg: fmt.Sprintf("panic during step/oracle: %v\n%s", r, debug.Stack())})
					enabled = true
				}
				func() {
					defer func() { recover() }()
					w.Teardown()
				}()
				s.Killed = w.killed
			}()
			if infra != "" {
				s.Infra = infra
				return s, true
			}
			if st != "." {
				if !w.Step(st) {
					return s, false
				}
			}
			if w.infra != "" {
				s.Infra = w.infra
				return s, true
			}
			full := append(append([]string{}, req.Path...), st)
			if st == "." {
				full = req.Path
			}
			if p := w.threadPanicked(); p != "" {
				s.Viols = append(s.Viols, Violation{Prop: sp.Prop, Sig: "panic|moss-thread|any", Msg: p})
			} else {
				key := w.key(sp.WithRefs)
				if sp.ExtraKey != nil {
					key += " X=" + sp.ExtraKey(w)
				}
				nB, nK, nR, nH := countSteps(full[req.Root:])
				key += fmt.Sprintf(" used:B%d,K%d,R%d,H%d", nB, nK, nR, nH) // remaining budgets are part of the state
				s.Key = shortHash(key)
				s.Heights = w.Heights()
				if w.store != nil && !w.closedStore {
					f, p := storeCounters(w)
					s.Comp = [2]int{f, p}
				}
				s.Viols = sp.Check(w, full)
				if w.infra != "" {
					s.Infra = w.infra
				}
			}
			return s, true
		}
		s, enabled := succ()
		if enabled && sp.Terminal != nil && len(s.Viols) == 0 && s.Infra == "" {
			full := append(append([]string{}, req.Path...), st)
			if st == "." {
				full = req.Path
			}
			for variant := 0; variant < 200; variant++ {
				w, infra := replayWorld(sp, cfg, full)
				var tv []Violation
				more := false
				func() {
					defer func() {
						if r := recover(); r != nil {
							tv = append(tv, Violation{Prop: sp.Prop, Sig: "panic|terminal-phase|any", Msg: fmt.Sprintf("panic in terminal phase variant %d: %v\n%s", variant, r, debug.Stack())})
						}
						func() {
							defer func() { recover() }()
							w.Teardown()
						}()
					}()
					if infra != "" {
						s.Infra = infra
						return
					}
					tv, more = sp.Terminal(w, variant)
					if pm := w.threadPanicked(); pm != "" && len(tv) == 0 {
						tv = append(tv, Violation{Prop: sp.Prop, Sig: "panic|moss-thread|terminal", Msg: pm})
					}
				}()
				s.Viols = append(s.Viols, tv...)
				s.Terminals++
				if !more || len(s.Viols) > 0 || s.Infra != "" {
					break
				}
			}
		}
		if enabled {
			resp.Succ = append(resp.Succ, s)
		}
	}
	return resp
}

// CanStep is a cheap necessary condition for Step(st) to be enabled (avoids a useless replay).
func (w *World) CanStep(st string) bool {
	if w.infra != "" {
		return false
	}
	if i := strings.Index(st, "/"); i >= 0 {
		return w.CanStep(st[:i])
	}
	switch {
	case st[0] == 'B':
		return w.pending == nil && !w.closedColl
	case st == "M":
		return !w.closedColl && w.merger != nil && w.s.Enabled(w.merger)
	case st == "MA":
		return !w.closedColl && w.merger != nil
	case st == "Pb":
		return !w.closedColl && w.persister != nil && !w.inGate && w.s.Enabled(w.persister)
	case st == "Pe" || st == "Pf":
		return w.inGate && !w.closedColl
	case st == "m1" || st == "m2" || st == "m3":
		return !w.closedColl && w.merger != nil && w.s.Enabled(w.merger)
	case st == "p1" || st == "p2":
		return !w.closedColl && w.persister != nil && (w.inGate || w.s.Enabled(w.persister))
	case st == "R":
		return w.cfg.Backing == "store" && !w.closedColl && w.pending == nil
	}
	return true
}

// ------------------------------------------------------------------ parent side

type g1Node struct {
	cfg  int
	path []string
	root int
}

type g1Stats struct {
	States, Transitions, Infra, KnownPruned, Killed, Skipped, Terminals int
	AfterFull, AfterPartial                                             int // transitions into a state whose store has done a full / partial compaction
	Shapes                                                              map[[5]int]int
	PerCfg                                                              map[string][2]int
	Depth                                                               int
	Exhaustive                                                          bool
	Cap                                                                 string
	Samples                                                             []any
	Violations                                                          []foundViolation
	Known                                                               map[string]int
}

type foundViolation struct {
	V    Violation
	Cfg  Config
	Path []string
}

func runG1(prop, tier string) (*g1Stats, *G1Spec) {
	sp := g1Specs[prop](tier)
	realProp := sp.Prop
	pool := NewPool()
	if os.Getenv("VERIF_WORKERS") == "" && pool.N > 8 {
		// measured in this sandbox: the replays are dominated by kernel work (mmap/munmap of tmpfs files) that does not
		// scale beyond about five processes; eight workers complete a level faster than sixteen
		pool.N = 8
	}
	if sp.Deadline > 0 {
		if sp.Share > 0 && g1DeadlineShare > 1 {
			sp.Deadline = time.Duration(float64(sp.Deadline) * sp.Share)
		} else {
			sp.Deadline /= time.Duration(g1DeadlineShare)
		}
		pool.Deadline = time.Now().Add(sp.Deadline)
	}
	findings := loadFindings()
	st := &g1Stats{Shapes: map[[5]int]int{}, PerCfg: map[string][2]int{}, Exhaustive: true, Known: map[string]int{}}
	start := time.Now()
	seen := make([]map[string]bool, len(sp.Configs))
	var frontier []g1Node
	// root states are checked through a "." job
	var jobs []Job
	roots := append([][]string{nil}, sp.Roots...)
	for ci := range sp.Configs {
		seen[ci] = map[string]bool{}
		for _, r := range roots {
			jobs = append(jobs, Job{Kind: "g1expand", Data: mustJSON(g1Req{Prop: prop, Tier: tier, Cfg: ci, Path: r, Only: ".", Root: len(r)})})
			frontier = append(frontier, g1Node{ci, r, len(r)})
		}
	}
	handle := func(node g1Node, res JobResult, next *[]g1Node) {
		cfg := sp.Configs[node.cfg]
		if res.Skipped {
			st.Skipped++
			return
		}
		if res.Crashed || res.Err != "" {
			// isolate: re-run every candidate step separately in fresh workers
			v := isolateCrash(pool, sp, prop, tier, node, res)
			for _, fv := range v {
				st.addViolation(fv, findings)
			}
			if len(v) == 0 {
				st.Infra++
				fmt.Fprintf(os.Stderr, "INFRA: worker failure not reproducible on cfg=%s path=%v: %s %s\n", cfg, node.path, res.Err, tail(res.Stderr, 600))
			}
			return
		}
		var resp g1Resp
		if err := json.Unmarshal(res.Data, &resp); err != nil {
			st.Infra++
			return
		}
		if resp.Infra != "" {
			st.Infra++
			fmt.Fprintf(os.Stderr, "INFRA: %s\n", resp.Infra)
			return
		}
		if len(node.path) == node.root && node.root > 0 && len(resp.Succ) == 1 && strings.HasPrefix(resp.Succ[0].Infra, "replay divergence") {
			return // this root does not exist under this configuration
		}
		for _, s := range resp.Succ {
			full := node.path
			if s.Step != "." {
				full = append(append([]string{}, node.path...), s.Step)
				st.Transitions++
			}
			st.Killed += s.Killed
			st.Terminals += s.Terminals
			if s.Infra != "" {
				st.Infra++
				fmt.Fprintf(os.Stderr, "INFRA: cfg=%s path=%v: %s\n", cfg, full, s.Infra)
				continue
			}
			if len(s.Viols) > 0 {
				allKnown := true
				for _, v := range s.Viols {
					if !st.addViolation(foundViolation{v, cfg, full}, findings) {
						allKnown = false
					}
				}
				if !allKnown {
					continue // a violating state is not expanded further
				}
				// a state that only shows a listed known finding is expanded like any other, so that a different
				// violation further down the same path is still found
				st.KnownPruned++
			}
			st.Shapes[s.Heights]++
			if s.Comp[0] > 0 {
				st.AfterFull++
			}
			if s.Comp[1] > 0 {
				st.AfterPartial++
			}
			if seen[node.cfg][s.Key] {
				continue
			}
			seen[node.cfg][s.Key] = true
			st.States++
			pc := st.PerCfg[cfg.String()]
			pc[0]++
			st.PerCfg[cfg.String()] = pc
			if len(st.Samples) < 6 && (st.States%97 == 1) {
				st.Samples = append(st.Samples, map[string]any{"config": cfg.String(), "path": full, "heights_top_mid_base_clean_lower": s.Heights})
			}
			if s.Step != "." {
				*next = append(*next, g1Node{node.cfg, full, node.root})
			}
		}
	}
	results := pool.Run(jobs)
	var dummy []g1Node
	var liveRoots []g1Node
	for i, r := range results {
		before := st.Infra
		var resp g1Resp
		skip := false
		if !r.Crashed && r.Err == "" && json.Unmarshal(r.Data, &resp) == nil && len(resp.Succ) == 1 && strings.HasPrefix(resp.Succ[0].Infra, "replay divergence") && frontier[i].root > 0 {
			skip = true
		}
		if !skip {
			handle(frontier[i], r, &dummy)
			if st.Infra == before {
				liveRoots = append(liveRoots, frontier[i])
			}
		}
	}
	frontier = liveRoots
	for depth := 0; depth < sp.MaxD && len(frontier) > 0; depth++ {
		if sp.Deadline > 0 && time.Since(start) > sp.Deadline {
			st.Exhaustive = false
			st.Cap = fmt.Sprintf("deadline %v reached before depth %d (complete to depth %d)", sp.Deadline, depth+1, depth)
			break
		}
		jobs = jobs[:0]
		for _, n := range frontier {
			jobs = append(jobs, Job{Kind: "g1expand", Data: mustJSON(g1Req{Prop: prop, Tier: tier, Cfg: n.cfg, Path: n.path, Root: n.root})})
		}
		results := pool.Run(jobs)
		var next []g1Node
		for i, r := range results {
			handle(frontier[i], r, &next)
		}
		if st.Skipped > 0 {
			st.Exhaustive = false
			st.Cap = fmt.Sprintf("deadline %v reached inside depth %d: %d of %d frontier states of that level were not expanded (complete to depth %d)", sp.Deadline, depth+1, st.Skipped, len(frontier), depth)
			fmt.Fprintf(os.Stderr, "[%s %s] %s\n", prop, tier, st.Cap)
			break
		}
		st.Depth = depth + 1
		fmt.Fprintf(os.Stderr, "[%s/%s %s] depth %d: frontier %d -> %d, states %d, transitions %d, violations %d, %.0fs\n",
			realProp, prop, tier, depth+1, len(frontier), len(next), st.States, st.Transitions, len(st.Violations), time.Since(start).Seconds())
		frontier = next
	}
	for ci, cfg := range sp.Configs {
		pc := st.PerCfg[cfg.String()]
		pc[0] = len(seen[ci])
		st.PerCfg[cfg.String()] = pc
	}
	return st, sp
}

func tail(s string, n int) string {
	if len(s) > n {
		return s[len(s)-n:]
	}
	return s
}

// isolateCrash re-runs each candidate step of a node whose worker died, one per fresh process.
func isolateCrash(pool *Pool, sp *G1Spec, prop, tier string, node g1Node, res JobResult) []foundViolation {
	var out []foundViolation
	cands := append([]string{"."}, sp.candidates(node.path[node.root:])...)
	for _, st := range cands {
		r := pool.RunOne(Job{Kind: "g1expand", Data: mustJSON(g1Req{Prop: prop, Tier: tier, Cfg: node.cfg, Path: node.path, Only: st, Root: node.root})})
		if !(r.Crashed || r.Err != "") {
			continue
		}
		// must reproduce once more to count
		r2 := pool.RunOne(Job{Kind: "g1expand", Data: mustJSON(g1Req{Prop: prop, Tier: tier, Cfg: node.cfg, Path: node.path, Only: st, Root: node.root})})
		if !(r2.Crashed || r2.Err != "") {
			continue
		}
		kind := "crash"
		if r.Timeout {
			kind = "hang"
		}
		full := append(append([]string{}, node.path...), st)
		out = append(out, foundViolation{Violation{Prop: sp.Prop, Sig: kind + "|worker|any",
			Msg: fmt.Sprintf("worker %s while executing the last step: %s %s", kind, r.Err, tail(r.Stderr, 1500))}, sp.Configs[node.cfg], full})
	}
	return out
}

// addViolation records v; returns true when it is attributed to an open known finding.
func (st *g1Stats) addViolation(fv foundViolation, findings []Finding) bool {
	for _, f := range findings {
		if f.Status == "open" && f.Property == fv.V.Prop && f.Signature == fv.V.Sig {
			st.Known[f.ID]++
			return true
		}
	}
	// keep one witness per signature (shortest first because BFS)
	for _, old := range st.Violations {
		if old.V.Sig == fv.V.Sig && old.Cfg.String() == fv.Cfg.String() {
			return false
		}
	}
	st.Violations = append(st.Violations, fv)
	return false
}

func shapesList(m map[[5]int]int) []string {
	var out []string
	for k := range m {
		out = append(out, fmt.Sprint(k))
	}
	sort.Strings(out)
	return out
}
