package main

import (
	"encoding/json"
	"fmt"
	"os"
	"path/filepath"
	"time"
)

// C15 after histories with an I/O failure.  "Once every handle, the collection and the store are closed, the process
// holds no descriptor or mapping of the directory and the directory contains only the current data file" has no
// exception for a persistence round or a compaction that failed on the way: the fault plans of engine G3 (every file
// operation of a recorded trace x error kind, real persister retrying, operations succeed again, persistence catches
// up) all end by closing collection and store, and C15's oracle is evaluated there.  This family runs after the G1
// searches of C15 and adds its numbers to the same evidence file.

func checkC15(prop, tier string) int {
	rc := 0
	if os.Getenv("VERIF_C15_FAULTS_ONLY") == "" || os.Getenv("VERIF_OUT") == "" { // (debugging: the family alone, scratch output only)
		rc = checkG1(prop, tier)
	}
	t0 := time.Now()
	// workloads with compactions: forced every round, leveled (partial then full), forced with a footer-only file,
	// forced / leveled after a clean close + reopen
	fr := runFaultPlans(tier, []int{1, 2, 5, 7, 8})
	if fr.rc != 0 {
		return fr.rc
	}
	viols := reportViolations("C15", "G3", fr.viols15)
	// add the family to the evidence written by the G1 searches
	p := filepath.Join(outDir(), "evidence", "C15.json")
	var ev Evidence
	if b, err := os.ReadFile(p); err == nil && json.Unmarshal(b, &ev) == nil && ev.Coverage != nil {
		ev.Coverage["io_failure_family"] = map[string]any{
			"rule":                       "every file operation of the fault-free trace of each compacting workload x error kind (x burst length in the thorough tier), run on the real write path; after operations succeed again and persistence has caught up, collection and store are closed and C15's oracle is evaluated: no descriptor, no mapping, one data file",
			"workloads":                  fr.names,
			"fault_plans":                fr.tot.Plans,
			"plans_in_which_fault_fired": fr.tot.Injected,
			"plans_ending_all_closed":    fr.tot.Closed,
			"steps":                      fr.tot.Steps,
			"outcomes":                   fr.tot.Outcomes,
			"violations":                 len(viols),
			"infrastructure_errors":      fr.infra,
			"wall_s":                     time.Since(t0).Seconds(),
		}
		if n, ok := ev.Coverage["evaluations"].(float64); ok {
			ev.Coverage["evaluations"] = int(n) + fr.tot.Plans
		}
		if n, ok := ev.Coverage["traces_validated_against_impl"].(float64); ok {
			ev.Coverage["traces_validated_against_impl"] = int(n) + fr.tot.Plans
		}
		// integers come back as float64 from the JSON round trip
		for _, k := range []string{"states", "transitions", "distinct_nontrivial"} {
			if n, ok := ev.Coverage[k].(float64); ok {
				ev.Coverage[k] = int(n)
			}
		}
		ev.Violations += len(viols)
		ev.WallS += time.Since(t0).Seconds()
		writeEvidence(&ev)
	}
	fmt.Fprintf(os.Stderr, "[C15 %s io-failure family] plans=%d fired=%d closed=%d violations=%d infra=%d wall=%.1fs\n", tier, fr.tot.Plans, fr.tot.Injected, fr.tot.Closed, len(viols), fr.infra, time.Since(t0).Seconds())
	if len(viols) > 0 {
		return 1
	}
	return rc
}

func init() {
	engines["C15"] = checkC15
}
