package main

import (
	"encoding/json"
	"fmt"
	"os"
	"runtime/debug"
	"strings"
	"time"

	vs "vsched"
)

// Engine G2: stateless depth-first exploration of thread interleavings of the real implementation.
//
// A schedule is the list of choices taken at every schedule point.  The default scheduler is
// deterministic and non-preemptive: keep running the current thread while it is enabled, otherwise
// continue with the next enabled thread in round-robin order (first ready select case).  Every other
// choice at a point - preempting the running thread, picking a different thread at a blocking point,
// picking another ready select case - is a *deviation* and costs 1.  G2 enumerates every execution
// with at most d deviations (iteratively d = 0, 1, 2, ...), each run to completion.

type g2Alt struct {
	tid    int
	choice int
}

type g2Program struct {
	Name string
	// Build creates the instance and its driver threads; it returns the per-point invariant and the final oracle.
	Build func() (*World, func() *Violation, func(deadlock string) []Violation)
}

var g2Programs = map[string]func(tier string) []g2Program{}

type g2Job struct {
	Prop   string `json:"prop"`
	Tier   string `json:"tier"`
	Prog   int    `json:"prog"`
	Prefix []int  `json:"prefix"`
	Bound  int    `json:"bound"`  // deviations still allowed below the prefix
	Desc   bool   `json:"desc"`   // descending round-robin as default order
	Single bool   `json:"single"` // run just this schedule (replay)
}

type g2Res struct {
	Execs     int            `json:"execs"`
	Points    int            `json:"points"`
	MaxPoints int            `json:"max_points"`
	Outcomes  map[string]int `json:"outcomes"`
	Viols     []Violation    `json:"viols,omitempty"`
	ViolSched [][]int        `json:"viol_sched,omitempty"`
	Children  []g2Job        `json:"children,omitempty"` // only for the root job: first-level subtrees
	Infra     string         `json:"infra,omitempty"`
	Sample    string         `json:"sample,omitempty"`
	Capped    bool           `json:"capped,omitempty"`
}

func init() {
	workerHandlers["g2"] = func(data json.RawMessage) (any, error) {
		var j g2Job
		if err := json.Unmarshal(data, &j); err != nil {
			return nil, err
		}
		return g2Run(j), nil
	}
}

type g2Exec struct {
	choices []int
	nalts   []int // number of alternatives at each point
	trace   []string
	viols   []Violation
	outcome string
	infra   string
}

// alternatives lists the enabled (thread, select case) pairs in canonical order: the default successor first.
func alternatives(s *vs.Sched, last int, desc bool) []g2Alt {
	n := s.NumThreads()
	var out []g2Alt
	add := func(i int) {
		t := s.Thread(i)
		if !s.Enabled(t) {
			return
		}
		for c := 0; c < s.NumChoices(t); c++ {
			out = append(out, g2Alt{i, c})
		}
	}
	// a thread parked at an explicit yield (a polling / retry loop made visible) gives way: it goes last
	yielded := last >= 0 && last < n && s.Thread(last).PendingKind() == vs.KYield
	if last >= 0 && last < n && !yielded {
		add(last)
	}
	for k := 1; k <= n; k++ {
		i := (last + k) % n
		if last < 0 {
			i = k - 1
		}
		if desc {
			i = ((last-k)%n + n) % n
			if last < 0 {
				i = n - k
			}
		}
		if i == last || i < 0 || i >= n {
			continue
		}
		add(i)
	}
	if yielded {
		add(last)
	}
	return out
}

// g2Execute runs one schedule: the given prefix of choices, then default choices to completion.
func g2Execute(p g2Program, prefix []int, desc bool, keepTrace bool) (x g2Exec) {
	debug.SetPanicOnFault(true)
	w, inv, final := p.Build()
	defer func() {
		if r := recover(); r != nil {
			x.viols = append(x.viols, Violation{Sig: "panic|controller|any", Msg: fmt.Sprintf("panic: %v\n%s", r, debug.Stack())})
		}
		func() {
			defer func() { recover() }()
			w.Teardown()
		}()
	}()
	if w.infra != "" {
		x.infra = w.infra
		return
	}
	s := w.s
	s.SleepFree = false
	last := -1
	for step := 0; ; step++ {
		alts := alternatives(s, last, desc)
		if len(alts) == 0 {
			break
		}
		if step > 20000 {
			x.viols = append(x.viols, Violation{Sig: "livelock|schedule|any", Msg: "execution did not terminate within 20000 schedule points: " + w.describeThreads()})
			break
		}
		c := 0
		if step < len(prefix) {
			c = prefix[step]
			if c >= len(alts) {
				x.infra = fmt.Sprintf("replay divergence at point %d: choice %d of %d alternatives", step, c, len(alts))
				return
			}
		}
		x.choices = append(x.choices, c)
		x.nalts = append(x.nalts, len(alts))
		a := alts[c]
		t := s.Thread(a.tid)
		if keepTrace {
			x.trace = append(x.trace, fmt.Sprintf("%d:%s@%s:%s", a.tid, t.Name, t.PendingKind(), t.PendingLabel()))
		}
		s.Step(t, a.choice)
		last = a.tid
		if pm := w.threadPanicked(); pm != "" {
			x.viols = append(x.viols, Violation{Sig: "panic|moss-thread|any", Msg: pm})
			break
		}
		if inv != nil {
			if v := inv(); v != nil {
				x.viols = append(x.viols, *v)
				break
			}
		}
	}
	dead := ""
	for i := 0; i < s.NumThreads(); i++ {
		if !s.Thread(i).Done {
			dead = w.describeThreads()
			break
		}
	}
	if len(x.viols) == 0 {
		x.viols = append(x.viols, final(dead)...)
	}
	x.outcome = w.outcome
	return
}

func g2Run(j g2Job) (res g2Res) {
	res.Outcomes = map[string]int{}
	progs := g2Programs[j.Prop](j.Tier)
	p := progs[j.Prog]
	deadline := time.Now().Add(100 * time.Second)
	seenSig := map[string]bool{}
	record := func(x g2Exec) {
		res.Execs++
		res.Points += len(x.choices)
		if len(x.choices) > res.MaxPoints {
			res.MaxPoints = len(x.choices)
		}
		res.Outcomes[x.outcome]++
		for _, v := range x.viols {
			if !seenSig[v.Sig] && len(res.Viols) < 4 {
				seenSig[v.Sig] = true
				v.Prop = j.Prop
				v.Msg = fmt.Sprintf("program %q, schedule %v: %s", p.Name, x.choices, v.Msg)
				res.Viols = append(res.Viols, v)
				res.ViolSched = append(res.ViolSched, append([]int{}, x.choices...))
			}
		}
	}
	if j.Single {
		x := g2Execute(p, j.Prefix, j.Desc, true)
		if x.infra != "" {
			res.Infra = x.infra
		}
		record(x)
		res.Sample = strings.Join(x.trace, " ")
		return
	}
	var explore func(prefix []int, bound int, root bool)
	explore = func(prefix []int, bound int, root bool) {
		if res.Infra != "" || len(res.Viols) >= 4 {
			return
		}
		if time.Now().After(deadline) && !root {
			res.Capped = true
			return
		}
		x := g2Execute(p, prefix, j.Desc, root)
		if x.infra != "" {
			res.Infra = x.infra
			return
		}
		record(x)
		if root && res.Sample == "" {
			res.Sample = fmt.Sprintf("default schedule of %q (%d points): %s", p.Name, len(x.trace), strings.Join(x.trace, " "))
		}
		if bound <= 0 {
			return
		}
		for i := len(prefix); i < len(x.choices); i++ {
			for alt := 1; alt < x.nalts[i]; alt++ {
				child := append(append([]int{}, x.choices[:i]...), alt)
				if root {
					res.Children = append(res.Children, g2Job{Prop: j.Prop, Tier: j.Tier, Prog: j.Prog, Prefix: child, Bound: bound - 1, Desc: j.Desc})
				} else {
					explore(child, bound-1, false)
				}
			}
		}
	}
	explore(j.Prefix, j.Bound, len(j.Prefix) == 0)
	return
}

// checkG2 runs every program of the property with iterative deviation bounding.
func checkG2(prop, tier string) int {
	t0 := time.Now()
	progs := g2Programs[prop](tier)
	maxBound := 2
	budget := 150 * time.Second
	if tier == "thorough" {
		maxBound = 3
		budget = 12 * time.Minute
	}
	if v := os.Getenv("VERIF_G2_BOUND"); v != "" {
		fmt.Sscan(v, &maxBound)
	}
	pool := NewPool()
	pool.JobTimeout = 5 * time.Minute
	pool.Deadline = t0.Add(budget)
	tot := g2Res{Outcomes: map[string]int{}}
	infra, skipped := 0, 0
	var viols []Violation
	seen := map[string]bool{}
	var samples []any
	boundDone := map[string]int{}
	capped := false
	for bound := 0; bound <= maxBound; bound++ {
		complete := true
		for pi, p := range progs {
			for _, desc := range []bool{false, true} {
				if desc && bound == 0 {
					continue
				}
				root := pool.RunOne(Job{Kind: "g2", Data: mustJSON(g2Job{Prop: prop, Tier: tier, Prog: pi, Bound: bound, Desc: desc})})
				var rr g2Res
				if root.Crashed || root.Err != "" || json.Unmarshal(root.Data, &rr) != nil {
					if v := crashViolation(pool, prop, Job{Kind: "g2", Data: mustJSON(g2Job{Prop: prop, Tier: tier, Prog: pi, Bound: bound, Desc: desc})}, root); v != nil && (root.Crashed || root.Err != "") {
						viols = append(viols, *v)
					}
					infra++
					fmt.Fprintf(os.Stderr, "INFRA: g2 root %s/%s: %s %s\n", prop, p.Name, root.Err, tail(root.Stderr, 800))
					complete = false
					continue
				}
				results := []g2Res{rr}
				// only the subtrees that use the full bound are new at this level; smaller bounds were covered before
				var jobs []Job
				for _, c := range rr.Children {
					jobs = append(jobs, Job{Kind: "g2", Data: mustJSON(c)})
				}
				for i, r := range pool.Run(jobs) {
					if r.Skipped {
						skipped++
						complete = false
						continue
					}
					var cr g2Res
					if r.Crashed || r.Err != "" {
						if v := crashViolation(pool, prop, jobs[i], r); v != nil {
							viols = append(viols, *v)
						}
					}
					if r.Crashed || r.Err != "" || json.Unmarshal(r.Data, &cr) != nil {
						// a crashed subtree: re-run its first schedule alone to see whether it is a hang/crash of moss
						infra++
						fmt.Fprintf(os.Stderr, "INFRA: g2 subtree %d of %s/%s: %s %s\n", i, prop, p.Name, r.Err, tail(r.Stderr, 800))
						complete = false
						continue
					}
					results = append(results, cr)
				}
				for _, cr := range results {
					if cr.Infra != "" {
						infra++
						fmt.Fprintf(os.Stderr, "INFRA: g2 %s/%s: %s\n", prop, p.Name, cr.Infra)
						complete = false
					}
					if cr.Capped {
						capped = true
						complete = false
					}
					tot.Execs += cr.Execs
					tot.Points += cr.Points
					if cr.MaxPoints > tot.MaxPoints {
						tot.MaxPoints = cr.MaxPoints
					}
					for k, v := range cr.Outcomes {
						tot.Outcomes[p.Name+": "+k] += v
					}
					for vi, v := range cr.Viols {
						if !seen[v.Sig] {
							seen[v.Sig] = true
							// the replay file named in the VIOLATION line carries the schedule itself
							v.Replay = map[string]any{"tier": tier, "program": pi, "program_name": p.Name, "desc": desc, "schedule": cr.ViolSched[vi]}
							viols = append(viols, v)
							writeReplay(prop+"-sched", map[string]any{"property": prop, "engine": "G2", "tier": tier, "program": pi, "program_name": p.Name, "desc": desc, "schedule": cr.ViolSched[vi], "signature": v.Sig, "message": v.Msg})
						}
					}
				}
				if rr.Sample != "" && bound == 0 {
					samples = append(samples, rr.Sample)
				}
			}
			if complete {
				boundDone[p.Name] = bound
			}
		}
		fmt.Fprintf(os.Stderr, "[%s %s] deviation bound %d: executions so far %d, violations %d, %.0fs\n", prop, tier, bound, tot.Execs, len(viols), time.Since(t0).Seconds())
		if len(viols) > 0 || time.Now().After(pool.Deadline) {
			break
		}
	}
	viols = reportViolations(prop, "G2", viols)
	if len(samples) == 0 {
		samples = append(samples, "none")
	}
	var names []string
	for _, p := range progs {
		names = append(names, p.Name)
	}
	writeEvidence(&Evidence{PropertyID: prop, Tier: tier, Violations: len(viols), WallS: time.Since(t0).Seconds(), Assumptions: commonAssumptions,
		Coverage: map[string]any{
			"states":                        tot.Points,
			"transitions":                   tot.Points,
			"traces_validated_against_impl": tot.Execs,
			"evaluations":                   tot.Execs,
			"distinct_nontrivial":           len(tot.Outcomes),
			"rule":                          "stateless DFS over schedules of the real implementation: schedule points before every mutex lock, cond wait, channel operation, select, goroutine start, sleep and file removal; default scheduler = non-preemptive round-robin (ascending and descending thread order), every other choice (preemption, different thread at a blocking point, other ready select case) is a deviation; all executions with at most `deviation_bound_completed` deviations are run to completion; states = schedule points visited, distinct_nontrivial = distinct observable outcomes (what every driver call returned / what every snapshot showed)",
			"samples":                       samples,
			"exhaustive":                    infra == 0 && skipped == 0 && !capped,
			"cap_hit":                       fmt.Sprintf("skipped subtrees: %d, capped subtrees: %v", skipped, capped),
			"executions":                    tot.Execs,
			"max_schedule_points":           tot.MaxPoints,
			"deviation_bound_completed":     boundDone,
			"deviation_bound_target":        maxBound,
			"program_names":                 names,
			"outcomes":                      tot.Outcomes,
			"infrastructure_errors":         infra,
		}})
	fmt.Fprintf(os.Stderr, "[%s %s] executions=%d points=%d maxpoints=%d outcomes=%d bound_done=%v violations=%d infra=%d skipped=%d wall=%.1fs\n", prop, tier, tot.Execs, tot.Points, tot.MaxPoints, len(tot.Outcomes), boundDone, len(viols), infra, skipped, time.Since(t0).Seconds())
	if len(viols) > 0 {
		return 1
	}
	if infra > 0 && tot.Execs == 0 {
		return 2
	}
	return 0
}
