package main

import (
	"encoding/json"
	"fmt"
	"os"
	"path/filepath"
	"sort"
	"strings"
	"syscall"
	"time"

	"github.com/couchbase/moss"
)

// C18 - ReadOnly never touches the directory (engine G1-style search over directory states x driver sequences).

type c18Job struct {
	Tier string `json:"tier"`
	From int    `json:"from"`
	To   int    `json:"to"`
}

type c18Res struct {
	Dirs      int         `json:"dirs"`
	Runs      int         `json:"runs"`
	Ops       int         `json:"ops"`
	MultiFile int         `json:"multi_file_dirs"`
	Viols     []Violation `json:"viols,omitempty"`
	Sample    string      `json:"sample,omitempty"`
	Infra     string      `json:"infra,omitempty"`
	Total     int         `json:"total"`
}

func init() {
	workerHandlers["c18"] = func(data json.RawMessage) (any, error) {
		var j c18Job
		if err := json.Unmarshal(data, &j); err != nil {
			return nil, err
		}
		return c18Run(j), nil
	}
	engines["C18"] = checkC18
}

// c18Dirs produces the directory states: every distinct post-crash image of the C05 workloads plus hand-listed ones.
func c18Dirs(tier string) ([]image, string) {
	var out []image
	seen := map[string]bool{}
	add := func(img image) {
		k := imageKey(img)
		if !seen[k] {
			seen[k] = true
			out = append(out, img)
		}
	}
	wls := workloads(false)
	use := []int{0, 1}
	if tier == "thorough" {
		use = []int{0, 1, 2, 4}
	}
	var lastGood map[string][]byte
	for _, wi := range use {
		ops, infra := recordTrace(wls[wi])
		if infra != "" {
			return nil, infra
		}
		d := newDiskState()
		capped := false
		for i := 0; i <= len(ops); i++ {
			var torn *vfsOp
			if i < len(ops) && ops[i].Kind == "write" {
				torn = &ops[i]
			}
			imgs := d.images(torn, false, &capped)
			if tier != "thorough" {
				// quick: the all-applied and none-applied images of every crash point
				if len(imgs) > 2 {
					imgs = []image{imgs[0], imgs[len(imgs)-1], imgs[len(imgs)/2]}
				}
			}
			for _, im := range imgs {
				im.desc = fmt.Sprintf("%s, crash at op %d: %s", wls[wi].Name, i, im.desc)
				add(im)
			}
			if i < len(ops) {
				d.apply(ops[i])
			}
		}
		if wi == 0 {
			lastGood = d.baseImage()
			for _, b := range d.blocks() {
				lastGood[b.file] = applyWrite(lastGood[b.file], b.off, b.data)
			}
		}
	}
	// directories without any data file
	add(image{map[string][]byte{}, "hand-listed: empty directory"})
	add(image{map[string][]byte{"README": []byte("hello"), "data.txt": []byte("x")}, "hand-listed: only files that are not data-*.moss"})
	// hand-listed directories built from a complete single-file store
	var good []byte
	var goodName string
	for n, c := range lastGood {
		good, goodName = c, n
	}
	if good != nil {
		next := "data-0000000000000009.moss"
		older := "data-0000000000000000.moss"
		cp := func(extra map[string][]byte, desc string) {
			m := map[string][]byte{goodName: good}
			for k, v := range extra {
				m[k] = v
			}
			add(image{m, "hand-listed: " + desc})
		}
		cp(map[string][]byte{next: good}, "two complete data files (newer is a copy)")
		cp(map[string][]byte{older: good}, "two complete data files (older is a copy)")
		cp(map[string][]byte{next: good[:4096]}, "newer file with header only")
		cp(map[string][]byte{next: {}}, "newer empty file")
		cp(map[string][]byte{next: good[:4096+100]}, "newer file with header and a torn tail")
		cp(map[string][]byte{"data-junk.moss": []byte("junk"), "README": []byte("hello"), "data-00000000000000zz.moss": good[:4096]}, "junk names matching and not matching data-*.moss")
		cp(map[string][]byte{older: good[:len(good)-10]}, "older file with a cut footer")
	}
	return out, ""
}

type fileID struct {
	Size int64
	Hash uint64
	Ino  uint64
}

func dirFingerprint(dir string) map[string]fileID {
	m := map[string]fileID{}
	ents, _ := os.ReadDir(dir)
	for _, e := range ents {
		p := filepath.Join(dir, e.Name())
		b, _ := os.ReadFile(p)
		var st syscall.Stat_t
		syscall.Stat(p, &st)
		m[e.Name()] = fileID{int64(len(b)), hashBytes(b), st.Ino}
	}
	return m
}

func diffFingerprint(a, b map[string]fileID) string {
	var out []string
	for n, x := range a {
		y, ok := b[n]
		switch {
		case !ok:
			out = append(out, "removed "+n)
		case x != y:
			out = append(out, fmt.Sprintf("changed %s (%v -> %v)", n, x, y))
		}
	}
	for n := range b {
		if _, ok := a[n]; !ok {
			out = append(out, "created "+n)
		}
	}
	sort.Strings(out)
	return strings.Join(out, ", ")
}

var c18Alphabet = []string{"G", "S", "B", "N", "SP", "CC", "CS"}

func c18Sequences(maxLen int) [][]string {
	seqs := [][]string{{}}
	frontier := [][]string{{}}
	for l := 0; l < maxLen; l++ {
		var next [][]string
		for _, p := range frontier {
			for _, a := range c18Alphabet {
				next = append(next, append(append([]string{}, p...), a))
			}
		}
		seqs = append(seqs, next...)
		frontier = next
	}
	return seqs
}

// c18One opens dir read-only under the given options, runs the driver sequence and checks immutability.
func c18One(img image, cfg Config, seq []string, res *c18Res) *Violation {
	dir, err := writeImage(img)
	defer os.RemoveAll(dir)
	if err != nil {
		res.Infra = err.Error()
		return nil
	}
	before := dirFingerprint(dir)
	probes := []string{"marker", "a", "b", "c", "d", "m"}
	w := &World{cfg: cfg, mains: map[int]bool{}, probes: probes, ll: map[string]string{}, models: []*Node{NewNode()}}
	w.alpha = []*BatchSpec{kv("ro", "x", "marker", "ro")}
	w.s = newSched(cfg)
	w.vfs = newVFS()
	w.s.OnRemove = func(path string) { w.vfs.rec(vfsOp{Kind: "unlink", File: filepath.Base(path)}) }
	w.dir = dir
	defer func() {
		w.dir = "" // the directory is removed by this function
		w.Teardown()
	}()
	w.open()
	where := fmt.Sprintf("directory {%s}, options %s, sequence %v", img.desc, cfg, seq)
	opened := w.infra == ""
	var roDump *DumpT
	if opened {
		for _, op := range seq {
			res.Ops++
			switch op {
			case "G":
				if !w.closedColl {
					w.coll.Get([]byte("a"), moss.ReadOptions{})
				}
			case "S":
				if !w.closedColl {
					if ss, err := w.coll.Snapshot(); err == nil {
						roDump = DumpSnapshot(ss, probes)
						ss.Close()
					}
				}
			case "B":
				if !w.closedColl && w.pending == nil {
					w.Step("B0")
				}
			case "SP": // Store.Persist of the read-only collection's snapshot, called directly (as the repository's own read-only test does)
				if !w.closedColl && !w.closedStore {
					t := w.s.Spawn("persist", func() {
						if ss, err := w.coll.Snapshot(); err == nil {
							if llss, err := w.store.Persist(ss, moss.StorePersistOptions{CompactionConcern: moss.CompactionConcern(cfg.Concern)}); err == nil && llss != nil {
								llss.Close()
							}
							ss.Close()
						}
					})
					w.mains[t.ID] = true
					w.runAll()
				}
			case "N":
				if !w.closedColl && moss.VerifPingQueue(w.coll) < 9 {
					t := w.s.Spawn("notify", func() { w.coll.(interface{ NotifyMerger(string, bool) error }).NotifyMerger("x", false) })
					w.mains[t.ID] = true
					w.run(t)
				}
			case "CC":
				if !w.closedColl && w.pending == nil {
					w.closeColl()
				}
			case "CS":
				if w.closedColl && !w.closedStore {
					w.closeAll()
				}
			}
			if w.infra != "" {
				break
			}
		}
	}
	if p := w.threadPanicked(); p != "" {
		return &Violation{Prop: "C18", Sig: "panic|read-only|any", Msg: where + ": " + p}
	}
	if opened && roDump == nil && !w.closedColl && w.infra == "" {
		if ss, err := w.coll.Snapshot(); err == nil {
			roDump = DumpSnapshot(ss, probes)
			ss.Close()
		}
	}
	// settle everything (file removers etc.) before looking at the directory
	w.helpers()
	after := dirFingerprint(dir)
	if d := diffFingerprint(before, after); d != "" {
		return &Violation{Prop: "C18", Sig: "directory-modified|" + strings.Fields(d)[0] + "|any", Msg: where + ": the directory was modified: " + d}
	}
	for _, o := range w.vfs.Ops {
		bad := ""
		switch o.Kind {
		case "create", "write", "trunc", "unlink":
			bad = o.String()
		case "open":
			if o.Flags&(os.O_WRONLY|os.O_RDWR|os.O_CREATE|os.O_TRUNC|os.O_APPEND) != 0 {
				bad = fmt.Sprintf("open %s with flags %#x", o.File, o.Flags)
			}
		}
		if bad != "" {
			return &Violation{Prop: "C18", Sig: "mutating-file-operation|" + o.Kind + "|any", Msg: where + ": a mutating file operation was issued: " + bad}
		}
	}
	// differential content oracle: what a writable open of a copy serves
	if roDump != nil && len(seq) <= 1 {
		cp, err := copyDir(dir)
		if err == nil {
			wcfg := cfg
			wcfg.ReadOnly = false
			w2 := &World{cfg: wcfg, mains: map[int]bool{}, probes: probes, ll: map[string]string{}}
			w2.s = w.s
			wd, oerr := w.openDump(cp)
			_ = w2
			if oerr == "" {
				hasB := false
				for _, op := range seq {
					if op == "B" {
						hasB = true
					}
				}
				if !hasB {
					if class, detail := DiffDumps(wd, roDump, "read-only collection vs writable open of a copy"); class != "" {
						os.RemoveAll(cp)
						return &Violation{Prop: "C18", Sig: "read-only-serves-different-content:" + class + "|read-only|any", Msg: where + ": " + detail}
					}
				}
			}
		}
		os.RemoveAll(cp)
	} else if !opened && len(seq) == 0 {
		// a read-only open may fail only if a writable open of a copy fails too
		cp, err := copyDir(dir)
		if err == nil {
			saved := w.infra
			w.infra = ""
			if _, oerr := w.openDump(cp); oerr == "" && !strings.Contains(saved, "panic") {
				os.RemoveAll(cp)
				return &Violation{Prop: "C18", Sig: "read-only-open-fails|read-only|any", Msg: where + ": opening read-only fails (" + saved + ") although a writable open of a copy of the directory succeeds"}
			}
			w.infra = saved
		}
		os.RemoveAll(cp)
	}
	return nil
}

func c18Run(j c18Job) (res c18Res) {
	dirs, infra := c18Dirs(j.Tier)
	if infra != "" {
		res.Infra = infra
		return
	}
	res.Total = len(dirs)
	maxLen := 2
	cfgs := []Config{
		{Backing: "store", MinMergePct: 100, ReadOnly: true, Concern: 0, MergeOp: true},
		{Backing: "store", MinMergePct: 100, ReadOnly: true, Concern: 2, KeepFiles: true, MergeOp: true},
	}
	if j.Tier == "thorough" {
		maxLen = 3
		cfgs = append(cfgs, Config{Backing: "store", MinMergePct: 100, ReadOnly: true, Concern: 1, KeysIndexMax: 64, KeysIndexMin: 1, MergeOp: true},
			Config{Backing: "store", MinMergePct: 100, ReadOnly: true, Concern: 2, MergeOp: true})
	}
	seqs := c18Sequences(maxLen)
	defer func() {
		if r := recover(); r != nil {
			res.Viols = append(res.Viols, Violation{Prop: "C18", Sig: "panic|harness|any", Msg: fmt.Sprint("panic: ", r)})
		}
	}()
	for di := j.From; di < j.To && di < len(dirs); di++ {
		res.Dirs++
		nd := 0
		for n := range dirs[di].files {
			if isDataFile(n) {
				nd++
			}
		}
		if nd > 1 {
			res.MultiFile++
		}
		for _, cfg := range cfgs {
			for _, seq := range seqs {
				res.Runs++
				if v := c18One(dirs[di], cfg, seq, &res); v != nil {
					res.Viols = append(res.Viols, *v)
					if len(res.Viols) >= 4 {
						return
					}
					break // one violation per (directory, options) is enough
				}
				if res.Infra != "" {
					return
				}
			}
		}
		if res.Sample == "" {
			res.Sample = fmt.Sprintf("directory {%s} with files %v: %d option sets x %d driver sequences (e.g. %v)", dirs[di].desc, fileNames(dirs[di]), len(cfgs), len(seqs), seqs[len(seqs)-1])
		}
	}
	return
}

func fileNames(img image) []string {
	var n []string
	for k, v := range img.files {
		n = append(n, fmt.Sprintf("%s(%d)", k, len(v)))
	}
	sort.Strings(n)
	return n
}

func checkC18(prop, tier string) int {
	t0 := time.Now()
	pool := NewPool()
	// the number of directory states is known to the workers only; probe it with an empty range
	r := pool.RunOne(Job{Kind: "c18", Data: mustJSON(c18Job{Tier: tier, From: 0, To: 0})})
	var probe c18Res
	if r.Crashed || r.Err != "" || json.Unmarshal(r.Data, &probe) != nil || probe.Infra != "" {
		fmt.Fprintf(os.Stderr, "INFRA: cannot enumerate directory states: %s %s %s\n", r.Err, probe.Infra, tail(r.Stderr, 400))
		return 2
	}
	var jobs []Job
	chunk := 4
	for from := 0; from < probe.Total; from += chunk {
		jobs = append(jobs, Job{Kind: "c18", Data: mustJSON(c18Job{Tier: tier, From: from, To: from + chunk})})
	}
	// the thorough tier has thousands of directory states; jobs are taken in an order that strides through the list
	// (crash points early and late in every workload first), under the tier's deadline
	if len(jobs) > 64 {
		var strided []Job
		for off := 0; off < 16; off++ {
			for i := off; i < len(jobs); i += 16 {
				strided = append(strided, jobs[i])
			}
		}
		jobs = strided
	}
	pool.Deadline = time.Now().Add(tierDeadline(tier))
	results := pool.Run(jobs)
	var tot c18Res
	infra, skipped := 0, 0
	var viols []Violation
	seen := map[string]bool{}
	var samples []any
	for i, r := range results {
		if r.Skipped {
			skipped++
			continue
		}
		if r.Crashed || r.Err != "" {
			if v := crashViolation(pool, "C18", jobs[i], r); v != nil {
				viols = append(viols, *v)
				continue
			}
			infra++
			fmt.Fprintf(os.Stderr, "INFRA: c18 job %d: %s %s\n", i, r.Err, tail(r.Stderr, 600))
			continue
		}
		var cr c18Res
		json.Unmarshal(r.Data, &cr)
		if cr.Infra != "" {
			infra++
			fmt.Fprintf(os.Stderr, "INFRA: c18 job %d: %s\n", i, cr.Infra)
		}
		tot.Dirs += cr.Dirs
		tot.Runs += cr.Runs
		tot.Ops += cr.Ops
		tot.MultiFile += cr.MultiFile
		if cr.Sample != "" && len(samples) < 5 && i%9 == 0 {
			samples = append(samples, cr.Sample)
		}
		for _, v := range cr.Viols {
			if !seen[v.Sig] {
				seen[v.Sig] = true
				viols = append(viols, v)
			}
		}
	}
	viols = reportViolations("C18", "G1", viols)
	if len(samples) == 0 {
		samples = append(samples, "none")
	}
	writeEvidence(&Evidence{PropertyID: "C18", Tier: tier, Violations: len(viols), WallS: time.Since(t0).Seconds(), Assumptions: commonAssumptions,
		Coverage: map[string]any{
			"states":                        tot.Dirs,
			"transitions":                   tot.Ops,
			"traces_validated_against_impl": tot.Runs,
			"evaluations":                   tot.Runs,
			"distinct_nontrivial":           tot.MultiFile,
			"rule":                          "directory states = every distinct post-crash image of the recorded workloads (C05's crash model) plus hand-listed ones (two complete files, incomplete newer files, junk names); for each x StoreOptions set x every driver sequence over {Get, Snapshot+iterate, ExecuteBatch, NotifyMerger, Close collection, Close store} up to the stated length the directory is opened ReadOnly through the recording file layer; oracle: names, sizes, content hashes and inode numbers unchanged, no create/write/truncate/unlink, every open O_RDONLY, content equal to a writable open of a copy; distinct_nontrivial = directory states with more than one data file",
			"samples":                       samples,
			"exhaustive":                    infra == 0 && skipped == 0,
			"cap_hit":                       fmt.Sprintf("%d of %d jobs (4 directory states each) skipped by the deadline", skipped, len(jobs)),
			"directory_states_total":        probe.Total,
			"directory_states":              tot.Dirs,
			"runs":                          tot.Runs,
			"infrastructure_errors":         infra,
		}})
	fmt.Fprintf(os.Stderr, "[C18 %s] dirs=%d (multi-file %d) runs=%d ops=%d violations=%d infra=%d wall=%.1fs\n", tier, tot.Dirs, tot.MultiFile, tot.Runs, tot.Ops, len(viols), infra, time.Since(t0).Seconds())
	if len(viols) > 0 {
		return 1
	}
	if infra > 0 && tot.Runs == 0 {
		return 2
	}
	return 0
}
